# Per-property configuration of the solver-based checks (see DESIGN.md §4).
# Each harness is a Go function in /verif/harness (package rapid) executed
# symbolically by gosym against /repo's working tree.

def H(name, bounds="", reach=(), native=True, thorough_only=False, quick=None, thorough=None, nodiff=False, opts=None, search=None, must_reach=None, unreach_job=None, race=False, search_any=False, sanity_reach=None, step_confirm_in_executor=False):
    return {"name": name, "race": race, "search_any": search_any, "sanity_reach": sanity_reach or [], "step_confirm_in_executor": step_confirm_in_executor, "bounds": bounds, "reach": list(reach), "native": native,
            "thorough_only": thorough_only, "quick": quick or {}, "thorough": thorough or {},
            "nodiff": nodiff, "opts": opts or {}, "search": search or [], "must_reach": must_reach or [], "unreach_job": unreach_job}

Q = {"budget": "150s", "timeout": 400}
T = {"budget": "12m", "timeout": 1500, "max-paths": 600000}
TD = {"budget": "22m", "timeout": 2700, "max-paths": 1500000}
TC = {"budget": "20m", "timeout": 2400, "max-paths": 1500000}

TSTATE_BOUNDS = "one checkOnce from a fresh T; property = any program of 3 opcodes (quick) over {return, draw, Errorf, Error() with an empty message, panic(nil), Fail, Fatalf, FailNow, panic(string), panic(error), nil dereference, Skip, Cleanup(sub), Context, Custom(sub)} / of 4 opcodes (thorough) over the same alphabet without Fail, FailNow and panic(error); 2-opcode sub-program for callbacks (+1 opcode for a nested cleanup); buffer stream of 4 symbolic words"
TSTATE_REACH = ["passed", "signalled", "skipped", "overrun"]
C10_REACH = TSTATE_REACH + ["custom-retried"]
ENGINE_ASSUME = ["sync.RWMutex/Mutex/Once, atomic.Bool/Value modelled as sequential state machines that report misuse (deadlock, unlock of unlocked)",
                 "runtime.Callers/CallersFrames modelled by the executor's own call stack with Go's run-time function naming",
                 "fmt/log/strings formatting executed natively on concrete arguments"]

PRUNE = [
    H("H_C04_prune_distinct", "SliceOfDistinct(Bool()) on a recording stream of 10 (quick) / 13 (thorough) symbolic words -> prune -> replay", reach=["valid", "invalid", "pruned-something"], quick=Q, thorough=T),
    H("H_C04_prune_map", "MapOf(Bool(),Bool()) on 13/16 symbolic words -> prune -> replay", reach=["valid", "invalid", "pruned-something"], quick=Q, thorough=T),
    H("H_C04_prune_filter", "two draws of Bool().Filter(id) on 6/7 symbolic words -> prune -> replay", reach=["valid", "invalid", "pruned-something"], quick=Q, thorough=T),
    H("H_C04_prune_perm", "Permutation of 3 elements (unbiased rejection loop) on 8/10 symbolic words -> prune -> replay", reach=["valid", "invalid", "pruned-something"], quick=Q, thorough=T),
    H("H_C04_prune_repeat", "T.Repeat with 1..2 actions, each a symbolic 3-opcode program over {return, draw bool, Errorf, Skip}, -rapid.steps=2, whole test case through checkOnce on 9/10 symbolic words (thorough: actions may also use a Filter draw) -> prune -> replay: same verdict, same failure message, same re-recording", reach=["valid", "invalid", "failed", "pruned-something"], quick=Q, thorough=T),
    H("H_C04_prune_program", "a whole test case given by a symbolic program of 2 (quick) / 3 (thorough) opcodes over {return, draw, Filter-draw, Errorf, Fatalf, panic, Skip, Custom(sub-program of 2 opcodes)} through checkOnce on 8/10 symbolic words -> prune -> replay: same verdict, same failure message, same top-level draws, same re-recording", reach=["valid", "invalid", "failed", "pruned-something"], quick=Q, thorough=T),
    H("H_C04_prune_nested", "IntRange(0,4).Filter(x != 2) (rejected integer samples nested inside rejected Filter tries) followed by a raw word, on 10/13 symbolic words -> prune -> replay", reach=["valid", "invalid", "pruned-something"], quick=Q, thorough=T),
    H("H_C04_prune_repeatFilter", "T.Repeat with one action that starts with Bool().Filter(id).Draw (may exhaust its 5 tries) followed by 2 symbolic opcodes, on 14/18 symbolic words -> prune -> replay", reach=["valid", "invalid", "failed", "pruned-something"], quick=Q, thorough=T),
    H("H_C04_history_runeTable", "RuneFrom over a range table containing surrogate code points, built three times in one process; equal bitstreams (8 bias words x 6 index words) must give equal runes", reach=["compared"], quick=Q, thorough=T),
]
PRUNE_MORE = [
    H("H_C04_prune_intReject", "one bounded integer draw genUintRange(min,max,bias) for any 64-bit range (span bit length: 16 classes quick / all thorough), biased and unbiased, followed by a raw 64-bit draw, on 13/20 symbolic words (up to 11/18 rejected samples) -> prune -> replay", reach=["valid", "invalid", "pruned-something"], quick=Q, thorough=T),
    H("H_C04_prune_runeDie", "two draws of RuneFrom(5 runes) (loadedDie.roll + genIndex rejection sampling) on 16 symbolic words -> prune -> replay", reach=["valid", "invalid", "pruned-something"], thorough_only=True, thorough=T),
]

PERSIST_ASSUME = ENGINE_ASSUME + ["package os replaced by an in-memory file system (POSIX rename atomicity, one directory tree, no concurrent writer); every call is a crash point, a write may crash leaving no / one byte / half / all but one byte",
                                 "fmt/strconv: formatting a symbolic word and parsing the resulting text are inverse",
                                 "strings are concrete: file contents and test names are representatives chosen by case split, not arbitrary bytes",
                                 "jsf64 with a symbolic seed abstracted to an arbitrary word sequence determined by the seed expression"]

def _band_job(label):
    # "witness-56" -> native sweep of the 56-bit band
    return {"harness": "H_C18_nativeBand", "vals": {"B": int(label.split("-")[1])}}

WITNESSES = ["witness-%d" % b for b in range(65)]

_FB = ["-inf", "-maxfloat", "-1", "0", "1", "maxfloat", "inf"]
_FV = [float("-inf"), -1.7e308, -1.0, 0.0, 1.0, 1.7e308, float("inf")]


def _float_edge_labels(idx):
    out = []
    for a in idx:
        for b in idx:
            if a <= b:
                tag = "[%s,%s]" % (_FB[a], _FB[b])
                out += ["max-of-" + tag, "min-of-" + tag]
                if _FV[a] <= 0.0 <= _FV[b]:
                    out.append("zero-in-" + tag)
    return out


def _float_job(label):
    return {"harness": "H_C18_nativeFloatEdge", "vals": {}}

CONC_ASSUME = ["interleavings: sequentially consistent, context switches at synchronisation operations only (mutex/rwmutex lock, Once.Do, atomic load/store, sync.Map, WaitGroup.Wait, go, goroutine end); sufficient for race detection because the first race of an execution is exhibited by an execution that is race-free up to it",
               "preemption bound: at most 2 (quick) / 2-3 (thorough) preemptive switches per path; switches at blocking operations and goroutine exits are free",
               "sync.Mutex/RWMutex/Once/WaitGroup/atomic/sync.Map are models with the happens-before edges of the Go memory model (unlock->lock, RUnlock->Lock, Once completion->Do return, atomic store->load, Done->Wait, go->goroutine start); writer starvation and fairness are not modelled",
               "the testing.TB behind T (Helper/Name/Logf/Log) and log.Logger are goroutine-safe by contract and have no shared state in the harness",
               "schedule variables are case-split by the executor (every value explored); the solver's part is the choice of operations and the model reported with a violation"]

PROPS = {
    "C12": {
        "level": "other",
        "e2e_confirm": "H_C12_nativeEndToEnd",
        "harnesses": [
            H("H_C12_localMin", "all 12 full-range integer kinds x both directions, threshold k any value of the kind (64-bit symbolic), recording = pruned recording of the real generator on any 2/3 symbolic words, with the shrinker's shape invariant (an overflow draw keeps its all-ones data word); hypothesis: no block can be lowered by one and still fail", reach=["local-minimum", "overflow", "plain"], quick=Q, thorough=T),
            H("H_C12_monotone", "all 12 kinds, any recording, bias word / data word lowered to any smaller value (64-bit symbolic)", reach=["compared"], quick=Q, thorough=T),
            H("H_C12_shape", "all 12 kinds on the real PRNG-backed recording stream with arbitrary PRNG output: overflow draws record all-ones; for every kind the solver synthesises a non-overflow bias word that keeps the extreme value (escape witness)", reach=["prng-overflow", "prng-plain"], must_reach=["escape-" + k for k in ["Int8", "Int16", "Int32", "Int64", "Int", "Uint8", "Uint16", "Uint32", "Uint64", "Uint", "Byte", "Uintptr"]], quick=Q, thorough=T, nodiff=True, search=["seed"]),
            H("H_C12_minimizeExact", "real minimize(u, cond): all u < 2^6 (quick) / 2^8 (thorough), every threshold condition x>=theta, and the never-true condition", reach=["threshold", "nothing-accepted"], quick=Q, thorough=T),
            H("H_C05_accept", "completeness of accept (see C05 for the bounds): a strictly smaller candidate that fails at the same site is always taken, whatever its message", reach=["accepted", "rejected"], sanity_reach=["accepted"], quick=Q, thorough=TD),
            H("H_C12_binSearchInduct", "the binary search of the real minimizer at full 64-bit width by one inductive step (loop cut-point): any best, any threshold, any loop state inside the invariant i <= threshold <= j == best; variant j-i; exit => best == threshold", reach=["iterated", "returned", "loop-back-edge"], quick=Q, thorough=T, search=["best", "theta"], search_any=True),
            H("H_C12_binSearchStep", "minimizer.accept and the first probe of binSearch for all 64-bit best/u and both condition outcomes", reach=["accepted", "rejected", "probe"], quick=Q, thorough=T),
            H("H_C12_offers", "real shrink() on a 3-word recording in 2 standalone groups, words from 10 representatives (0,1,5,6,7,1000,2^53-1,2^63,2^64-2,2^64-1), property reproduced by no candidate; then a second shrink() of a neighbouring test case in the same process", reach=["first-run", "second-run"], quick=Q, thorough=T),
            H("H_C12_slice", "SliceOf(Uint8()) recorded from any 7 (quick) / 9 (thorough) symbolic words, up to 2/3 elements, k in 0..2/3", reach=["local-minimum"], quick=Q, thorough=T),
            H("H_C12_string", "StringOf(RuneFrom(a..d)) recorded from any 7/10 symbolic words, up to 2/3 runes", reach=["local-minimum"], quick=Q, thorough=T),
            H("H_C12_nativeEndToEnd", "native-only end-to-end confirmation of a failed lemma (threshold properties over Int64/Uint64/Int8, 3 seeds, Fatalf and value-naming panic, collections with k up to 32), no-op under gosym", quick=Q, thorough=T, nodiff=True),
            H("H_C12_sliceSigned", "SliceOf(Int16()) recorded from any 9 symbolic words, up to 2 elements", reach=["local-minimum"], thorough_only=True, thorough=T),
            H("H_C12_map", "MapOf(Bool(), Bool()) recorded from any 8 symbolic words, up to 2 entries", reach=["local-minimum"], thorough_only=True, thorough=T),
        ],
        "assumptions": ENGINE_ASSUME + ["genGeom summarised as a monotone step function (see C03)",
                                        "composition of the lemmas into the statement is a paper argument (DESIGN.md section 4, C12): termination at a fixpoint by C05's strict short-lex decrease, offers by H_C12_offers/minimize*, shape invariant by H_C12_shape + H_C12_monotone + exactness of minimize on monotone conditions (machine-checked end to end up to 8-bit blocks, at full width by the step lemmas), local minimum => boundary by H_C12_localMin/H_C12_slice/string/map",
                                        "collections: at most 2-3 elements (k <= 3); the statement's k <= 32 is reached only through the per-element argument",
                                        "float thresholds and bounded ranges are outside the statement"],
        "explanation": "Lemma-wise bounded symbolic model checking of the real shrinker and generator code (each lemma decided by z3 for all inputs within its bound) plus a paper composition step; not a single end-to-end model-checking run because whole-shrink unrolling is out of reach (binary search over 53/64-bit words).",
    },
    "C15": {
        "level": "model_checking",
        "harnesses": [
            H("H_C15_shared", "18 generator families (integer, slice, Deferred, self-recursive Deferred, Custom, Filter, Map, SampledFrom, OneOf, Ptr, MapOf, Permutation, String over the package-level rune generator, RuneFrom on a shared range table, regexp character-class caches, AsAny, Float64Range, Deferred nested in a slice); one shared instance, 2 goroutines with their own T and bitstream, 2 operations each from {Draw, String, use as sub-generator of a locally built SliceOfN} (solver-chosen), compared with the same operations on private instances; <=1 (quick) / <=2 (thorough) preemptions", reach=["compared", "value"], quick=Q, thorough=TC, race=True, nodiff=True),
            H("H_C15_three", "the same families, 3 goroutines with one operation each; <=1 preemption", reach=["compared", "value"], quick=Q, thorough=T, race=True, nodiff=True),
        ],
        "assumptions": ENGINE_ASSUME + CONC_ASSUME + ["bitstreams are three fixed 24-word buffers, all goroutines of a scenario reading equal private copies; the families touching package-level state are run with all three, the others with the first (the claim is about schedules and generator families, not about data: arms of a generator that these streams do not reach are not exercised)",
                                                        "Make (reflection) and the regexp engine (StringMatching/SliceOfBytesMatching values, compileRegexp) are outside the claim; the regexp caches are exercised through charClassGen/regexpName/expandRangeTable",
                                                        "user callbacks (Custom/Filter/Map functions) are harness functions without shared state"],
    },
    "C14": {
        "level": "model_checking",
        "harnesses": [
            H("H_C14_pairs", "2 goroutines started by the property, one call each from {Helper+Name, Logf, Errorf, Fail, Failed, Context, Cleanup} (solver-chosen, unordered pair), logging off / through TB / through a raw logger, goroutines joined by the body or only inside a cleanup callback (overlapping failOnError, context cancellation and the cleanup loop); every interleaving of synchronisation operations with <=2 (quick) / <=3 (thorough) preemptions", reach=["joined", "overlapping-end", "signalled", "context"], quick=Q, thorough=TC, race=True),
            H("H_C14_withBody", "1 goroutine with 2 calls running concurrently with 1 call made by the property's own goroutine, same alphabet, logging off / through TB, joined or not; <=2 preemptions", reach=["joined", "overlapping-end", "signalled", "context"], quick=Q, thorough=T, race=True),
            H("H_C14_sequences", "2 goroutines with 2 calls each from {Errorf, Failed, Context, Cleanup} (quick) / the full alphabet (thorough), joined; <=1 (quick) / <=2 (thorough) preemptions", reach=["joined", "signalled", "context"], quick=Q, thorough=TC, race=True),
            H("H_C14_three", "3 goroutines with one call each from the full alphabet, joined or not; <=2 preemptions", reach=["joined", "overlapping-end", "signalled", "context"], thorough_only=True, thorough=TC, race=True),
        ],
        "assumptions": ENGINE_ASSUME + CONC_ASSUME,
    },
    "C18": {
        "level": "model_checking",
        "harnesses": [
            H("H_C18_reachUint", "every span bit length B in 0..64: the solver synthesises a bias word that makes the real genUintNBiased draw at full width (witness search), then for ALL min, all spans of that bit length and ALL values in range the real Uint64Range returns the value on the bitstream [witness, value-min] (universal check)", must_reach=WITNESSES, unreach_job=_band_job, quick=Q, thorough=T, nodiff=True),
            H("H_C18_reachInt", "the same through Int64Range: all min<=v<=max (64-bit symbolic), sign coin 0 / all-ones, magnitude span of bit length B", must_reach=WITNESSES, unreach_job=_band_job, reach=["negative", "non-negative"], quick=Q, thorough=T, nodiff=True),
            H("H_C18_edges", "forcing regions for Uint64Range, all min and all spans of every bit length 1..64: bias word below Tlo (and an even data word) forces min, bias word above Thi forces max; both regions have measure >= 2^-8 (computed in the harness from the documented bias schedule, slack 2^30)", reach=["min-forced", "max-forced"], quick=Q, thorough=T),
            H("H_C18_fresh", "baseSeed() without -rapid.seed is the environment's entropy (two calls can differ, not a constant); seeds of test cases i<j<40 of one run differ for every base seed", reach=["two-calls-can-differ", "not-a-constant", "distinct"], quick=Q, thorough=T, nodiff=True),
            H("H_C18_freshChecks", "two real checkTB runs under one test name in one process, no -rapid.seed; environment symbolic under its contracts (entropy values pairwise distinct, clock non-decreasing with equal readings allowed, pid constant): the seeds of the two runs differ for every such environment", reach=["compared", "not-a-constant"], quick=Q, thorough=T, nodiff=True),
            H("H_C18_floatEdges", "Float64Range over every pair of bounds from {-Inf, -1, 0, +Inf}: the solver synthesises 8-word bitstreams on which the real generator returns exactly min, exactly max, and 0 when it is in range (every path of the real float kernel explored)", must_reach=_float_edge_labels([0, 2, 3, 6]), unreach_job=_float_job, quick=Q, thorough=T, nodiff=True),
            H("H_C18_floatEdgesFull", "the same for all 28 ranges over {-Inf, -MaxFloat64, -1, 0, 1, MaxFloat64, +Inf}", must_reach=_float_edge_labels([0, 1, 2, 3, 4, 5, 6]), unreach_job=_float_job, thorough_only=True, thorough=T, nodiff=True),
            H("H_C18_nativeFloatEdge", "native-only confirmation sweep for an unreachable float edge (20000 draws per range), no-op under gosym", quick=Q, thorough=T, nodiff=True),
            H("H_C18_nativeBand", "native-only confirmation sweep (400000 draws), no-op under gosym", quick=Q, thorough=T, nodiff=True),
        ],
        "assumptions": ENGINE_ASSUME + ["genGeom summarised as a monotone step function (see C03)", "probability statements are reduced to a solver-proved forcing region plus its exactly computed measure under uniform words",
                                        "float ranges: only the edges (min, max, zero) of representative ranges are shown reachable, not every float value; rune/collection generators are outside the reachability claim", "hash/maphash is the environment: its value is an unconstrained symbol"],
    },
    "C01": {
        "level": "model_checking",
        "harnesses": [
            H("H_C01_checkTB", "real checkTB/doCheck/findBug/shrink/checkOnce on a deterministic symbolic program; quick: 3 opcodes over {return, draw bool, Errorf, Fatalf, data-dependent Fatalf, Skip, panic, draw from Bool().Filter}, checks=1, <=2 generated test cases, shrinktime in {0, 30s} with a ticking clock; thorough: 2 opcodes over the larger alphabet (+second fatal site, conditional opcode, SliceOfDistinct), checks in 1..2, <=3 generated cases, symbolic clock (deadline may fall between any two time.Now calls); PRNG words symbolic", reach=["reported", "not-failed"], quick=Q, thorough=TD, search=["env.maphash"]),
            H("H_C01_shrinkDeadline", "the real shrink() with a symbolic clock (the deadline may fall between any two time.Now readings) on the recording of a property that draws two booleans and always fails, at one site, with a message naming the drawn values; 2 symbolic words", reach=["returned", "deadline-passed"], native=False, quick=Q, thorough=T),
            H("H_C05_accept", "shrinker invariant, see C05", reach=["accepted", "rejected"], sanity_reach=["accepted"], quick=Q, thorough=TD),
        ] + PRUNE,
        "assumptions": ENGINE_ASSUME + ["jsf64 with a symbolic seed abstracted to an arbitrary word sequence determined by the seed expression", "fail files disabled (-rapid.nofailfile); C06 covers what is written to the file",
                                        "the executor's fmt model renders %#v of a slice differently from package fmt: logged-draw comparison is made for bool draws only"],
    },
    "C16": {
        "level": "model_checking",
        "harnesses": [
            H("H_C16_crash", "real saveFailFile on the in-memory file system, killed in front of every file-system step (mkdir x3, create-temp, each write, close, rename) and inside every write (4 prefix splits); output 0..2 lines, <=2 symbolic words, symbolic seed, directory pre-existing or not, 3/11 test names; compared with the uninterrupted save", reach=["crashed", "temp-visible"], native=False, quick=Q, thorough=T),
        ],
        "assumptions": PERSIST_ASSUME + ["a kill runs no deferred call; durability after power loss (fsync) is not claimed by the property"],
    },
    "C17": {
        "level": "model_checking",
        "harnesses": [
            H("H_C17_loadTotal", "real loadFailFile and checkFailFile on 15 malformed/unusable file shapes (empty, comments only, binary garbage, bad seed, extra '#', other version, now-passing, now-invalid, number overflow, truncated, missing version, negative seed, unreadable)", reach=["error", "loaded"], native=False, quick=Q, thorough=T),
            H("H_C17_shortFile", "real checkTB with a fail file holding one word for a property that draws two and fails iff the second is zero: the file is an unusable one (its replay runs out of data), never 'failed after 0 tests'", reach=["ignored-and-passed", "reported"], native=False, quick=Q, thorough=T, search=["env.maphash"]),
            H("H_C17_mixed", "real doCheck with 1 (quick) / 1..2 (thorough) unusable files of every shape sorted in front of one usable fail file with the same seed, vs. the usable file alone: identical verdict tuple, the usable file is replayed first, no random test case runs", reach=["compared"], native=False, quick=Q, thorough=T),
            H("H_C17_ignored", "real doCheck (checks=2, symbolic seed, shrinktime 0) with 1 (quick) / 1..2 (thorough) unusable files of the 15 shapes present vs. an empty directory: verdict tuple and the sequence of random test cases compared", reach=["compared"], native=False, quick=Q, thorough=T),
        ],
        "assumptions": PERSIST_ASSUME,
    },
    "C06": {
        "level": "model_checking",
        "harnesses": [
            H("H_C06_rerun", "two-run history on the in-memory file system: real checkTB (checks=1, shrinktime 0, -rapid.nofailfile both ways, 3 (quick) / 11 (thorough) test names incl. unicode, separators, glob metacharacters, reserved names) with a data-dependent property on a symbolic PRNG word, then a second checkTB on the resulting file system", reach=["run1-failed", "run1-not-failed", "nofailfile"], native=False, quick=Q, thorough=T, search=["env.maphash", "env.maphash#1"]),
            H("H_C06_twoChecks", "a test that calls Check twice (first passes and draws two words, second fails on one word): two runs of the test on the in-memory file system; the second Check's persisted failure is an invalid test case for the first Check and must survive it and be replayed first", reach=["b-failed", "b-not-failed"], native=False, quick=Q, thorough=T, search=["env.maphash", "env.maphash#1", "env.maphash#2", "env.maphash#3"]),
            H("H_C06_roundtripLong", "real saveFailFile -> loadFailFile with a 600-word counterexample (about 11 KB of data lines, several refills of the scanner buffer), first/middle/last word and seed symbolic, short or 8 KB captured output", reach=["loaded"], quick=Q, thorough=T),
            H("H_C06_roundtrip", "real saveFailFile -> loadFailFile over the in-memory file system (real bufio.Scanner code executed); seed and <=2 bitstream words symbolic 64-bit; captured output = 0..2 (quick) / 0..3 (thorough) lines chosen by the solver from 10 representative lines (lengths 0,1,..,65533,65534,65535,70000; comment-like, data-like, version-like, blank, CR contents), with/without trailing newline", reach=["loaded"], quick=Q, thorough=T),
        ],
        "assumptions": ENGINE_ASSUME + ["package os replaced by an in-memory file system (POSIX rename atomicity, one directory tree, no concurrent writer)",
                                        "fmt/strconv: formatting a symbolic word and parsing the resulting text are inverse (strconv.ParseUint of the text printed for a symbolic value returns that value)",
                                        "strings are concrete: output contents are representatives chosen by case split, not arbitrary bytes"],
    },
    "C07": {
        "level": "model_checking",
        "harnesses": [
            H("H_C07_seedSchedule", "real findBug with symbolic 64-bit base seed, N=2 (quick) / 3 (thorough); property = data-dependent pass/skip/fail on the first PRNG word; then a second findBug run from the reported seed", reach=["failed", "no-failure"], quick=Q, thorough=T, search=["seed"]),
            H("H_C09_findBugStep", "seed schedule step for every position in a run of any length, see C09", reach=["iterated", "failed"], quick=Q, thorough=T),
            H("H_C07_streamState", "ONE iteration of the real findBug loop from an arbitrary carried-over state of the reused stream and T (loop cut-point; recorder length < 2^40, draw counter any): a failing test case is regenerated, value by value, by a fresh stream with the reported seed (property draws a SliceOfN(Bool,0,2) and a raw word)", reach=["iterated", "failed", "loop-back-edge"], quick=Q, thorough=T, nodiff=True, search=["seed"], search_any=True),
            H("H_C07_plumbing", "real checkTB with symbolic non-zero -rapid.seed after 0..2 earlier base-seed requests in the process, two consecutive Checks, checks=1, nofailfile, shrinktime 0", reach=["failed", "not-failed"], quick=Q, thorough=T, search=["flagseed"]),
            H("H_C07_determinism", "two runs of the real doCheck (checks=2, shrinktime 0) from one symbolic seed, compared invocation by invocation", reach=["failed", "passed"], quick=Q, thorough=T, search=["seed"]),
        ],
        "assumptions": ENGINE_ASSUME + ["jsf64 with a symbolic seed is abstracted to an arbitrary word sequence that is a function of the seed expression (same seed, same words); with concrete state the real jsf64 code runs",
                                        "clock stub: deadline never reached, shrinktime=0 ends minimisation before the first round"],
    },
    "C08": {
        "level": "model_checking",
        "harnesses": [
            H("H_C08_repeat", "real T.Repeat/executeAction/runAction with 1..2 actions (2 symbolic opcodes each over {return, draw, skip, Fatalf, Errorf, panic}), optional invariant (1 symbolic opcode), -rapid.steps=2, buffer stream of 10 (quick) / 12 (thorough) symbolic words; trace checked by the check/action automaton", reach=["falsified", "passed", "invalid-or-novalid", "step-completed"], quick=Q, thorough=T),
            H("H_C08_noValidAction", "one action that always skips, all-ones stream of 400 words: Repeat must give up after validActionTries and fail", reach=["always-skips", "runs"], quick=Q, thorough=T),
        ],
        "assumptions": ENGINE_ASSUME + ["StateMachineActions (reflection) is outside the claim"],
    },
    "C04": {
        "level": "model_checking",
        "harnesses": PRUNE + PRUNE_MORE + [H("H_C07_plumbing", "same seed, same test cases, whatever ran earlier in the process: see C07", reach=["failed", "not-failed"], quick=Q, thorough=T, search=["flagseed"])],
        "assumptions": ENGINE_ASSUME + ["the comparison float64(u)*2^-53 >= c of flipBiasedCoin is rewritten exactly to u >= ceil(c*2^53) (u < 2^53: conversion and scaling are exact)"],
    },
    "C05": {
        "level": "model_checking",
        "harnesses": [
            H("H_C05_compareData", "three buffers of 0..3 symbolic 64-bit words", reach=["compared", "equal"], quick=Q, thorough=T),
            H("H_C05_shrinkSteps", "the real shrink() with all its passes on a failing 5-word recording made of two same-label standalone groups of different length (payload words from 3 representatives, both orders), property failing at one site; every accepted candidate strictly smaller than its predecessor, result not larger than the input", reach=["accepted-step", "shrunk"], quick=Q, thorough=T),
            H("H_C05_acceptCallbacks", "the accept step for 4-opcode programs over {return, draw, conditional, Errorf, Fatalf, Skip, two cleanup functions that fail}: failures raised inside cleanup functions (also one after the other) are failure sites of their own", reach=["accepted", "rejected"], sanity_reach=["accepted"], quick=Q, thorough=T),
            H("H_C05_accept", "pre-state = recording of any failing run of a symbolic 3-opcode program (2 fatal sites, data-dependent site, non-fatal site, panic, skip) on any buffer of <=3 words; candidate = any buffer of <=3 words; one call of the real accept from any history counters; thorough: wider opcode alphabet (small-int draws, value-dependent Fatalf message)", reach=["accepted", "rejected"], sanity_reach=["accepted"], quick=Q, thorough=TD),
        ],
        "assumptions": ENGINE_ASSUME + ["dataStr (cache key of rejected candidates) is structural on symbolic words: a spurious cache miss re-runs the candidate with the same result"],
    },
    "C09": {
        "level": "model_checking",
        "harnesses": [
            H("H_C09_findBug", "real findBug, N in -1..2 (quick) / -1..3 (thorough), every pass/skip/fail outcome sequence (solver-chosen per invocation), deadline far away", reach=["failed", "no-failure", "enough", "budget"], quick=Q, thorough=T),
            H("H_C09_findBugStep", "ONE iteration of the real findBug loop from an arbitrary loop state (loop cut-point): N any int in [-2, 2^32], valid/invalid any values inside the invariant, any outcome of the iteration, any 64-bit seed; invariant, exact counting, immediate return on failure, exit condition valid==N or invalid==10N, seed schedule step", reach=["iterated", "failed", "exited", "loop-back-edge"], quick=Q, thorough=T, search=["valid0", "invalid0", "checks"], search_any=True, step_confirm_in_executor=True),
            H("H_C09_failfileFlaky", "real checkTB with a valid fail file present and a property whose outcome per invocation is chosen by the solver (so also 'fails on replay, passes on reproduction')", reach=["falsified", "failfile-falsified"], native=False, quick=Q, thorough=T),
            H("H_C09_verdict", "real checkTB with -rapid.checks in 1..2, -rapid.nofailfile, shrinktime 0, every outcome sequence", reach=["falsified", "passed", "only-generated"], quick=Q, thorough=T),
        ],
        "assumptions": ENGINE_ASSUME + ["clock: time.Now non-decreasing ticks, time.Until(deadline) large (the early-exit branch is not taken)", "filepath.Glob finds no fail files (C06/C17 cover them)"],
    },
    "C13": {
        "level": "model_checking",
        "harnesses": [
            H("H_C13_fuzz", "input length 0..17 (quick) / 0..25 (thorough) symbolic bytes; property = symbolic program of 2/3 opcodes over {return, draw bool, draw byte, Errorf, Fatalf, panic, Skip, data-dependent Fatalf}", reach=["pass", "skip", "fail"], quick=Q, thorough=T),
            H("H_C13_suffix", "x: 0..11 symbolic bytes, y: 1..9 appended symbolic bytes, 2-opcode symbolic program", reach=["decided"], quick=Q, thorough=T),
        ],
        "assumptions": ENGINE_ASSUME + ["tb.SkipNow/Fatalf end the goroutine like runtime.Goexit"],
    },
    "C02": {
        "level": "model_checking",
        "harnesses": [H("H_C02_checkOnce", TSTATE_BOUNDS, reach=TSTATE_REACH, quick=Q, thorough=TD),
                      H("H_C09_failfileFlaky", "real checkTB with a valid fail file present and a property whose outcome per invocation is chosen by the solver (fails on the first replay, passes on the second, ...): a falsified invocation always fails the test", reach=["falsified", "failfile-falsified"], native=False, quick=Q, thorough=T),
                      H("H_C02_lateGoroutine", "real findBug with 2 test cases in the executor's concurrent mode: test case 1 starts a goroutine that calls t.Errorf on its *T at any later point (every interleaving, <=2 preemptions) up to the middle of test case 2, which waits for it; Check must report a failure", reach=["signal-seen-by-the-next-test-case", "signal-seen-by-its-own-test-case"], quick=Q, thorough=T, race=True, nodiff=True),
                      H("H_C09_findBugStep", "one iteration of findBug from any loop state with a symbolic clock: a test case that ran and falsified the property is never dropped (see C09)", reach=["iterated", "failed", "early-exit"], quick=Q, thorough=T, search=["valid0", "invalid0", "checks"], search_any=True, step_confirm_in_executor=True)],
        "assumptions": ENGINE_ASSUME + ["fail files live in the in-memory file system model"],
    },
    "C10": {
        "level": "model_checking",
        "harnesses": [H("H_C10_checkOnce", TSTATE_BOUNDS + "; every call of a Custom generator function, retries included, is an invocation of its own", reach=C10_REACH, quick=Q, thorough=TD)],
        "assumptions": ENGINE_ASSUME,
    },
    "C11": {
        "level": "model_checking",
        "harnesses": [H("H_C11_checkOnce", TSTATE_BOUNDS, reach=TSTATE_REACH, quick=Q, thorough=TD),
                      H("H_C11_twoCases", "two test cases in a row: the first any program of 2 opcodes (+2-opcode callbacks) over the same alphabet on 4 symbolic words, the second a fixed benign case using draws, a Custom generator, the context and cleanups - on the same T when it is reused, on a fresh one otherwise; the second must pass (state outside the T - pools, package variables - included)", reach=["first-failed", "first-reusable"], quick=Q, thorough=T)],
        "assumptions": ENGINE_ASSUME,
    },
    "C03": {
        "level": "model_checking",
        "harnesses": [
            H("H_C03_uintRange", "min,max: any uint64 with min<=max (span bit length: quick 16 classes, thorough all 65); bias: both; buffer stream of L<=2 (quick) / L<=3 (thorough) symbolic words",
              reach=["returned", "overrun"], quick=Q, thorough=T),
            H("H_C03_int64Range", "Int64Range(min,max), any int64 min<=max (magnitudes of the ends: quick bit lengths {0,1,9,63,64}, thorough all), stream of <=3/4 symbolic words", reach=["value", "invalid"], quick=Q, thorough=T),
            H("H_C03_int8Range", "Int8Range over all int8 bounds", reach=["value", "invalid"], quick=Q, thorough=T),
            H("H_C03_uint8Range", "Uint8Range over all uint8 bounds", reach=["value", "invalid"], quick=Q, thorough=T),
            H("H_C03_sliceN", "SliceOfN(Bool(), minLen, maxLen) with limits in -1..3, stream of 7/9 words", reach=["value", "invalid"], quick=Q, thorough=T),
            H("H_C03_sliceDistinct", "SliceOfNDistinct(Bool(), ..) limits in -1..3 (incl. unsatisfiable minimum), 8/11 words", reach=["value", "invalid"], quick=Q, thorough=T),
            H("H_C03_mapN", "MapOfN(Bool(),Bool(),..) limits in -1..3, 9/12 words", reach=["value", "invalid"], quick=Q, thorough=T),
            H("H_C03_mapValues", "MapOfNValues(Bool(),.., not) limits in -1..3, 8/11 words", reach=["value", "invalid"], quick=Q, thorough=T),
            H("H_C03_stringN", "StringOfN over a rune generator yielding 1..4-byte runes and an unencodable surrogate; minRunes,maxRunes in -1..2, maxLen in -1..5; 6/9 words", reach=["value", "invalid"], quick=Q, thorough=T),
            H("H_C03_permutation", "Permutation of 0..4 elements, 8/10 words; input unmodified", reach=["value", "invalid"], quick=Q, thorough=T),
            H("H_C03_sampledOneOfPtr", "SampledFrom(1..3 values), OneOf(Just,Just), Ptr(Bool(),false)", reach=["value", "invalid"], quick=Q, thorough=T),
            H("H_C03_filter", "Bool().Filter(id): predicate holds, at most 5 tries", reach=["value", "invalid"], quick=Q, thorough=T),
            H("H_C03_floatRange", "Float64Range on 3 representative ranges ([1,3072.5], [-1.5,2.5], [0,+Inf]) with 8 symbolic words: every path of the real float kernel", reach=["value", "invalid"], quick=Q, thorough=T),
            H("H_C03_ufloat64", "genUfloatRange on any non-negative non-NaN float64 bounds min<=max (bit patterns symbolic; exponents of the two ends adjacent, or one end denormal/zero or infinite), up to 7 words; result compared on bit patterns", reach=["value", "invalid"], thorough_only=True, thorough=T),
        ],
        "assumptions": [
            "genGeom's float expression uint64(Log1p(-f)/Log1p(-p)) is summarised as a non-decreasing step function of the 53-bit draw, computed by native bisection of the current source's expression and checked for monotonicity at every threshold and at 2048 sampled pairs",
            "bits.Len64 is replaced by an equivalent balanced ite tree over its 65 outcomes",
        ],
        "explanation": "bounded symbolic model checking of the real generator code from go/ssa",
    },
}
