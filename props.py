# Per-property configuration of the solver-based checks (see DESIGN.md §4).
# Each harness is a Go function in /verif/harness (package rapid) executed
# symbolically by gosym against /repo's working tree.

def H(name, bounds="", reach=(), native=True, thorough_only=False, quick=None, thorough=None, nodiff=False, opts=None):
    return {"name": name, "bounds": bounds, "reach": list(reach), "native": native,
            "thorough_only": thorough_only, "quick": quick or {}, "thorough": thorough or {},
            "nodiff": nodiff, "opts": opts or {}}

Q = {"budget": "150s", "timeout": 400}
T = {"budget": "25m", "timeout": 3000}

TSTATE_BOUNDS = "one checkOnce from a fresh T; property = any program of k<=3 (quick) / 4 (thorough) opcodes over {return, draw, Errorf, Fail, Fatalf, FailNow, panic(string), panic(error), nil dereference, Skip, Cleanup(sub), Context, Custom(sub)} with a 2-opcode sub-program for callbacks; buffer stream of 4 symbolic words"
TSTATE_REACH = ["passed", "signalled", "skipped", "overrun"]
ENGINE_ASSUME = ["sync.RWMutex/Mutex/Once, atomic.Bool/Value modelled as sequential state machines that report misuse (deadlock, unlock of unlocked)",
                 "runtime.Callers/CallersFrames modelled by the executor's own call stack with Go's run-time function naming",
                 "fmt/log/strings formatting executed natively on concrete arguments"]

PROPS = {
    "C02": {
        "level": "model_checking",
        "harnesses": [H("H_C02_checkOnce", TSTATE_BOUNDS, reach=TSTATE_REACH, quick=Q, thorough=T)],
        "assumptions": ENGINE_ASSUME,
    },
    "C10": {
        "level": "model_checking",
        "harnesses": [H("H_C10_checkOnce", TSTATE_BOUNDS, reach=TSTATE_REACH, quick=Q, thorough=T)],
        "assumptions": ENGINE_ASSUME,
    },
    "C11": {
        "level": "model_checking",
        "harnesses": [H("H_C11_checkOnce", TSTATE_BOUNDS, reach=TSTATE_REACH, quick=Q, thorough=T)],
        "assumptions": ENGINE_ASSUME,
    },
    "C03": {
        "level": "model_checking",
        "harnesses": [
            H("H_C03_uintRange", "min,max: any uint64 with min<=max (span bit length: quick 16 classes, thorough all 65); bias: both; buffer stream of L<=2 (quick) / L<=3 (thorough) symbolic words",
              reach=["returned", "overrun"], quick=Q, thorough=T),
        ],
        "assumptions": [
            "genGeom's float expression uint64(Log1p(-f)/Log1p(-p)) is summarised as a non-decreasing step function of the 53-bit draw, computed by native bisection of the current source's expression and checked for monotonicity at every threshold and at 2048 sampled pairs",
            "bits.Len64 is replaced by an equivalent balanced ite tree over its 65 outcomes",
        ],
        "explanation": "bounded symbolic model checking of the real generator code from go/ssa",
    },
}
