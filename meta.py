# Manifest texts per property and the not-applicable list (kept current by hand).
HOOK_COMMITS = []

_PENDING = "check not built yet in this session; planned as solver-based per DESIGN.md §4 (will be claimed once its harnesses run clean on the unchanged tree)"

NOT_APPLICABLE = {("C%02d" % i): _PENDING for i in range(1, 19)}

_ENGINE_NOTE = "Trusted: gosym (own SSA->SMT executor; validated per run by differential native replay of solved path models), z3 5.1.0, the sequential models of sync/atomic/context-free stubs listed in evidence.assumptions, go/ssa construction. Bounded: program length, callback nesting depth 1, stream length."

_CONC_TECH = "bounded symbolic execution of the real code from go/ssa in the executor's concurrent mode: goroutine interleavings at synchronisation operations are decision variables of the path (case-split within a preemption bound), a vector-clock happens-before monitor checks every load/store, operation choices are SMT variables (z3); violating schedules are replayed natively under the Go race detector"

META = {
    "C12": {
        "text": "Decided lemma by lemma on the real code, each lemma for all inputs within its bound by the solver: (1) one round of the real shrinker offers, for every block, the values 0..4 and block-1, and every standalone group for removal - also for a second shrink in the same process; minimize() is exact for threshold conditions on blocks up to 9 bits and its accept/binSearch probe facts hold at 64 bits; (2) for all 12 full-range integer kinds, both directions and every 64-bit threshold, a failing recording in which no block can be lowered by one decodes to the exact boundary, decoding is monotone in the bias and data words, and overflow draws keep the all-ones shape that lets the bias block leave overflow mode; (3) for slices, strings and maps of up to 2-3 elements a recording that admits no group removal and no block decrement has exactly k elements (all zero for integer slices). The composition into 'given enough time the reported counterexample is the boundary' is a paper step, hence level 'other'.",
        "note": _ENGINE_NOTE + " The composition step and the width-uniformity of minimize's binary search beyond 9-bit blocks are argued, not machine-checked.",
    },
    "C15": {
        "text": "Bounded model checking of shared generator values under concurrent use: for 18 generator families one instance is used by 2-3 goroutines (own T, own bitstream) performing solver-chosen sequences of Draw / String / use-as-sub-generator, first and later uses; every interleaving of synchronisation operations within the preemption bound is explored; a happens-before monitor shows there is no data race on anything reachable from the generator or on package-level caches, and each goroutine's results equal those of the same operations on a private instance run alone.",
        "note": _ENGINE_NOTE + " Concurrency: sequentially consistent interleavings, switches at synchronisation operations only, preemption bound 1-2, 2-3 goroutines x 1-2 operations, two fixed bitstreams; Make and the regexp engine are outside the claim.",
        "technique": _CONC_TECH,
    },
    "C14": {
        "text": "Bounded model checking of the real T methods under concurrent calls: the property body starts 2-3 goroutines that call solver-chosen sequences of Helper/Name/Logf/Errorf/Fail/Failed/Context/Cleanup on the shared T (also overlapping the end of the invocation: failOnError, context cancellation, cleanup loop); every interleaving of synchronisation operations within the preemption bound is explored; on each, a happens-before monitor shows the absence of data races on T and the assertions show: a failure signalled from any goroutine falsifies the case, every registered cleanup runs exactly once, all goroutines see one live context.",
        "note": _ENGINE_NOTE + " Concurrency: sequentially consistent interleavings, switches at synchronisation operations only, preemption bound 2-3, at most 3 goroutines x 2 calls; models of sync/atomic primitives with the Go memory model's happens-before edges.",
        "technique": _CONC_TECH,
    },
    "C18": {
        "text": "Reachability of every integer value by witness synthesis plus a universal check (for each span bit length the solver finds a bias word forcing a full-width draw, then shows for ALL ranges of that bit length and ALL values that the real Uint64Range/Int64Range returns the value); edge frequency by solver-proved forcing regions of measure >= 2^-8; float edges: for representative ranges (bounds from -Inf ... +Inf) the solver synthesises bitstreams on which the real Float64Range returns exactly min, max and zero; freshness: for EVERY environment satisfying its contracts (entropy values pairwise distinct, clock non-decreasing, pid constant) two Checks of one test in one process start from different seeds, and the per-case seeds of one run differ.",
        "note": _ENGINE_NOTE + " The harness-side Skolem function replicates the sign/offset split of genIntRange.",
    },
    "C02": {
        "text": "Bounded symbolic model checking of the real checkOnce/T/customGen code with the property as an interpreter over a symbolic opcode program (failure kind x callback context, incl. Error() with an empty message and panic(nil)): the invocation is classified as failed iff a failure signal was raised; plus: a fail-file replay that fails is never dropped when a second replay passes, a test case that ran and failed is never dropped by the early exit near the deadline (loop cut-point with a symbolic clock), and a non-fatal failure signalled by a goroutine that outlived its test case is seen by the test case that runs next (concurrent mode).",
        "note": _ENGINE_NOTE,
    },
    "C05": {
        "text": "compareData is the strict length-then-lexicographic order (reference definition, antisymmetry, transitivity on buffers up to 3 words); one inductive step on the real shrinker.accept from every state a run can produce (any history counters): an accepted candidate is strictly smaller, fails at the same site (also for sites inside helper functions that call t.Helper and inside cleanup functions) and replays to the same error, it is still a falsification (never a merely skipped case), a rejected candidate leaves buffer and recorded failure together; and the real shrink() with all its passes on a two-group recording only ever accepts strictly smaller candidates and returns nothing larger than it was given.",
        "note": _ENGINE_NOTE,
    },
    "C01": {
        "text": "Obligations on the real code whose conjunction is the statement: (1) bounded model checking of checkTB/doCheck/shrink end to end with a symbolic deterministic program, symbolic PRNG words and (thorough) a symbolic clock; (2) the real shrink() cut short at any point by a symbolic clock returns a buffer and a failure that belong together; (3) the inductive step on shrinker.accept (shared with C05): what the shrinker holds replays to the error it is reported with, and is a falsification; (4) prune/replay equivalence (shared with C04) for the recording handed to the shrinker, including state-machine test cases.",
        "note": _ENGINE_NOTE,
    },
    "C04": {
        "text": "Bounded symbolic model checking of record -> prune -> replay on the real streams, repeat/find/rejection loops and generators: for every recording of up to 8..20 symbolic words the pruned recording replays to the same values and verdict, consumes every word and re-records to itself - for collections with rejected elements, Filter, Permutation, bounded integers with any number of rejected samples, rejections nested in rejections, state-machine test cases whose actions draw, fail and skip, and whole test cases given by symbolic programs (failures raised inside Custom/Filter attempts included); same seed, same test cases whatever ran earlier in the process (-rapid.seed verbatim for consecutive Checks; generators built from shared tables draw the same values).",
        "note": _ENGINE_NOTE,
    },
    "C06": {
        "text": "Bounded symbolic model checking of the real saveFailFile/loadFailFile/checkTB/doCheck/checkFailFile over an in-memory file system: exact save/load round trip (symbolic seed and words, output lines around the 64 KiB scanner limit, a 600-word counterexample spanning several scanner refills); over the history fail -> rerun exactly one discoverable file is left (also when a second passes between two timestamps), it encodes the final counterexample and the next Check replays it first and fails 'after 0 tests'; a test calling Check twice keeps the other Check's persisted failure.",
        "note": _ENGINE_NOTE + " File-system model instead of package os.",
    },
    "C16": {
        "text": "Symbolic crash-point model checking of the real saveFailFile: the crash index is a case-split variable over every file-system step and every write is additionally interrupted with 4 prefix splits; in each resulting file system every file matching any test's discovery pattern equals the uninterrupted save and partial data is visible only under hidden temporary names in the same directory; and a later, uninterrupted save into the directory the killed save left behind produces exactly what it produces in a clean one.",
        "note": _ENGINE_NOTE + " File-system model instead of package os; a kill runs no deferred calls.",
    },
    "C17": {
        "text": "Bounded symbolic model checking of loadFailFile/checkFailFile/doCheck on 19 shapes of unusable fail files plus every truncation of a valid one: no panic, no failed test, identical verdict tuple and identical random test cases compared with an empty directory (2-run self-composition, symbolic seed); unusable files sorted in front of a usable one with the same seed change nothing; a file that has become too short for the property is ignored, never completed with made-up data.",
        "note": _ENGINE_NOTE + " File-system model instead of package os.",
    },
    "C07": {
        "text": "Bounded symbolic model checking of the real findBug/doCheck/checkTB with a symbolic 64-bit seed (reported seed = seed of the failing case, regenerates its draws, 'after 0 tests' on re-run, two runs identical) plus two loop cut-point steps valid for every position of a run of any length: the seed reported for a failing case regenerates it, and a failing case does not depend on state the reused stream/T carry over from earlier cases (a fresh stream with the reported seed gives the same draws); -rapid.seed is used verbatim whatever ran earlier in the process, also by a second Check.",
        "note": _ENGINE_NOTE,
    },
    "C08": {
        "text": "Bounded symbolic model checking of the real T.Repeat/executeAction/runAction: the solver chooses action programs and the bitstream; every produced call trace is accepted by the automaton 'invariant first; invariant after each completed action; none after a skipped/invalid one; nothing after a falsification; only supplied actions, one at a time'; an always-skipping action set fails after validActionTries.",
        "note": _ENGINE_NOTE,
    },
    "C09": {
        "text": "Two layers on the real findBug/checkTB: (1) one inductive step of the findBug loop from an arbitrary loop state (loop cut-point: every N up to 2^32, every position in a run, any outcome, far deadline and symbolic clock): exactly one invocation per iteration, exact valid/invalid counting, immediate return on a falsified case, no early exit while the deadline is far, a case that ran and failed is never dropped, exit only with valid == N or invalid == 10N; (2) bounded model checking for N <= 2/3 with every outcome sequence chosen by the solver, the checkTB verdict (OK / 'only generated' / failure, FailNow) and the fail-file-first rule with a flaky property.",
        "note": _ENGINE_NOTE,
    },
    "C13": {
        "text": "Bounded symbolic model checking of the real checkFuzz on symbolic byte strings of every length up to 17/25 with a symbolic property program (incl. rune draws through the loaded die): draws equal those of the little-endian reference decoding, the outcome map {pass, SkipNow, Fatalf} matches what the property signalled, no run-time panic or internal assertion escapes, the input and the caller's memory behind it are not modified, and appending unconsumed bytes changes neither outcome nor draws (2-run self-composition).",
        "note": _ENGINE_NOTE,
    },
    "C10": {
        "text": "Bounded symbolic model checking of checkOnce/T.cleanup/T.Context/customGen.maybeValue: for every symbolic program (any way of ending, nested cleanup registration, Custom callbacks) the context is live in the body and cancelled before cleanups, every cleanup runs exactly once in LIFO order, nothing is left on the T; every call of a Custom generator function - retries after a skip included - is an invocation of its own (its predecessor's cleanups have run, its context is cancelled and not reused).",
        "note": _ENGINE_NOTE,
    },
    "C11": {
        "text": "One inductive step on checkOnce from an arbitrary fresh T: for every symbolic program the T is clean again whenever it will be reused, and an invocation without failure signal is never classified as failing; plus a two-case composition: after an arbitrary first test case a benign second one (draws, Custom generator, context, cleanups) passes - on the reused T or a fresh one - so state outside the T (pools, package variables) cannot leak either.",
        "note": _ENGINE_NOTE,
    },
    "C03": {
        "text": "Bounded symbolic model checking of the real generator kernels (genUintRange/genUintN*/genIntRange/... from go/ssa): for every parameter value at full 64-bit width and every buffer bitstream up to the stated length, the solver shows the returned value satisfies the contract or the draw ends in invalidData; unbounded stream lengths and the excluded generator families are outside the claim.",
        "note": "Trusted: gosym (own SSA->SMT executor, validated per run by differential native replay of solved path models), z3 5.1.0, the monotone step summary of genGeom's Log1p expression, go/ssa construction.",
    },
}
