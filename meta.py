# Manifest texts per property and the not-applicable list (kept current by hand).
HOOK_COMMITS = []

_PENDING = "check not built yet in this session; planned as solver-based per DESIGN.md §4 (will be claimed once its harnesses run clean on the unchanged tree)"

NOT_APPLICABLE = {("C%02d" % i): _PENDING for i in range(1, 19)}

META = {
    "C03": {
        "text": "Bounded symbolic model checking of the real generator kernels (genUintRange/genUintN*/genIntRange/... from go/ssa): for every parameter value at full 64-bit width and every buffer bitstream up to the stated length, the solver shows the returned value satisfies the contract or the draw ends in invalidData; unbounded stream lengths and the excluded generator families are outside the claim.",
        "note": "Trusted: gosym (own SSA->SMT executor, validated per run by differential native replay of solved path models), z3 5.1.0, the monotone step summary of genGeom's Log1p expression, go/ssa construction.",
    },
}
