#!/usr/bin/env python3
"""Prints the seeded-change detection matrix (markdown) from seeded/*/meta.json."""
import json, os, re
root = "/verif/seeded"
print("| change | property | what it does (one line) | needs | detected by |")
print("|---|---|---|---|---|")
for d in sorted(os.listdir(root)):
    m = json.load(open(os.path.join(root, d, "meta.json")))
    notes = ""
    np = os.path.join(root, d, "notes.md")
    title = ""
    if os.path.exists(np):
        for line in open(np):
            if line.startswith("#"):
                title = line.lstrip("# ").strip()
                break
    title = re.sub(r"^(C\d+\s*)?(seeded )?(change)?\s*[/#]?\s*\d*\s*[-:—–]*\s*", "", title, flags=re.I)
    det = ", ".join(m.get("detected_by") or []) or ("— (" + m.get("why_missed", "missed") + ")")
    print("| %s | %s | %s | %s | %s |" % (d, m["property"], title[:110], (m.get("needs") or "")[:90], det))
