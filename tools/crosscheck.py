#!/usr/bin/env python3
"""crosscheck.py [harness ...]: re-asks the solver queries of a gosym run of other solvers.

gosym is run with -smtlog (its SMT-LIB2 transcript, with z3 5.1.0's answers recorded as comments);
every transcript is replayed through z3 4.8.12 (/usr/bin/z3 -in) and cvc5 1.0 (--incremental) and the
check-sat answers are compared one by one. Any disagreement between two definite answers is printed
and makes the tool exit 1; unknown/timeouts are counted. Result: /verif/notes/crosscheck.json."""
import json, os, re, subprocess, sys, tempfile, glob, time
VERIF = os.path.dirname(os.path.dirname(os.path.abspath(__file__)))
ENV = dict(os.environ, GOFLAGS="-mod=mod", GOPROXY="off", GOSUMDB="off", GOTOOLCHAIN="local")
DEFAULT = ["H_C03_uintRange", "H_C03_int8Range", "H_C05_compareData", "H_C12_binSearchInduct", "H_C12_binSearchStep", "H_C12_localMin",
           "H_C12_monotone", "H_C09_findBugStep", "H_C07_streamState", "H_C13_suffix", "H_C04_prune_filter", "H_C18_edges", "H_C18_reachUint", "H_C11_twoCases"]

def replay(transcript, argv, strip_opts):
    lines, want = [], []
    for l in open(transcript):
        if l.startswith("; -> "):
            if l[5:].strip() in ("sat", "unsat", "unknown"):
                want.append(l[5:].strip())
            continue
        if l.startswith(";"):
            continue
        if strip_opts and l.startswith("(set-option"):
            continue
        if l.startswith("(get-"):  # model/value requests are not needed for the comparison
            continue
        lines.append(l)
    p = subprocess.run(argv, input="".join(lines), capture_output=True, text=True, timeout=1800)
    got = [x.strip() for x in p.stdout.splitlines() if x.strip() in ("sat", "unsat", "unknown", "timeout")]
    errs = [x for x in p.stdout.splitlines() if "error" in x.lower()][:3]
    return want, got, errs

def main():
    hs = sys.argv[1:] or DEFAULT
    out = {"solvers": {"reference": "z3 5.1.0 (answers recorded by gosym)", "z3-4.8.12": "/usr/bin/z3 -in", "cvc5": "cvc5 --incremental"}, "harnesses": {}, "when": time.strftime("%Y-%m-%d %H:%M:%S")}
    bad = 0
    for h in hs:
        tmp = tempfile.mkdtemp(prefix="verif-xc-")
        try:
            subprocess.run([os.path.join(VERIF, "bin", "gosym"), "-repo", os.environ.get("VERIF_REPO", "/repo"), "-harness-dir", os.path.join(VERIF, "harness"), "-tier", "quick",
                            "-run", h, "-workers", "2", "-max-paths", "400", "-budget", "120s", "-smtlog", os.path.join(tmp, "q"), "-out", os.path.join(tmp, "o.json")],
                           env=ENV, capture_output=True, text=True, timeout=900)
            rec = {"queries": 0, "z3-4.8.12": {"agree": 0, "disagree": 0, "indefinite": 0}, "cvc5": {"agree": 0, "disagree": 0, "indefinite": 0}, "errors": []}
            for tr in sorted(glob.glob(os.path.join(tmp, "q.*.smt2"))):
                for name, argv, strip in (("z3-4.8.12", ["/usr/bin/z3", "-in", "-T:600"], False), ("cvc5", ["cvc5", "--incremental", "--lang=smt2", "--tlimit-per=20000"], True)):
                    try:
                        want, got, errs = replay(tr, argv, strip)
                    except subprocess.TimeoutExpired:
                        rec["errors"].append(name + ": replay timed out")
                        continue
                    if name == "z3-4.8.12":
                        rec["queries"] += len(want)
                    rec["errors"] += [name + ": " + e for e in errs]
                    if len(got) != len(want):
                        rec["errors"].append("%s: %d answers for %d queries" % (name, len(got), len(want)))
                    for w, g in zip(want, got):
                        if w not in ("sat", "unsat") or g not in ("sat", "unsat"):
                            rec[name]["indefinite"] += 1
                        elif w == g:
                            rec[name]["agree"] += 1
                        else:
                            rec[name]["disagree"] += 1
                            bad += 1
            out["harnesses"][h] = rec
            print(h, json.dumps(rec))
        finally:
            subprocess.run(["rm", "-rf", tmp])
    os.makedirs(os.path.join(VERIF, "notes"), exist_ok=True)
    json.dump(out, open(os.path.join(VERIF, "notes", "crosscheck.json"), "w"), indent=1)
    sys.exit(1 if bad else 0)

main()
