#!/usr/bin/env python3
"""Runs the repository's suite (guard off) and compares passing test names with BASELINE.json."""
import json, subprocess, os, sys
env = dict(os.environ, GOFLAGS="-mod=mod", GOPROXY="off", GOSUMDB="off", GOTOOLCHAIN="local")
p = subprocess.run(["go", "test", "-json", "-vet=off", "-count=1", "-timeout", "25m", "./..."], cwd="/repo", env=env, capture_output=True, text=True)
subprocess.run(["git", "-C", "/repo", "checkout", "--", "vis-test.html"], capture_output=True)
passed, failed, skipped = set(), set(), set()
for line in p.stdout.splitlines():
    try:
        e = json.loads(line)
    except Exception:
        continue
    if e.get("Test"):
        n = "%s::%s" % (e["Package"], e["Test"])
        if e["Action"] == "pass":
            passed.add(n)
        elif e["Action"] == "fail":
            failed.add(n)
        elif e["Action"] == "skip":
            skipped.add(n)
base = set(json.load(open("/root/.vp/BASELINE.json"))["stable_pass"])
print("passed=%d failed=%d baseline=%d missing_from_pass=%d" % (len(passed), len(failed), len(base), len(base - passed)))
for n in sorted(base - passed)[:20]:
    print("  MISSING", n, "(skipped this run)" if n in skipped else "")
for n in sorted(failed)[:20]:
    print("  FAILED", n)
sys.exit(0 if not (base - passed) and not failed else 1)
