#!/usr/bin/env python3
"""mut.py <prop> <tier> <file> <old> <new> : apply a textual mutation to /repo, run the check, restore."""
import subprocess, sys
prop, tier, f, old, new = sys.argv[1:6]
p = "/repo/" + f
s = open(p).read()
assert s.count(old) >= 1, "pattern not found"
open(p, "w").write(s.replace(old, new, 1))
try:
    r = subprocess.run(["go", "build", "./..."], cwd="/repo", capture_output=True, text=True)
    if r.returncode != 0:
        print("DOES NOT COMPILE", r.stderr[:500])
    else:
        r = subprocess.run(["/verif/check", prop, tier], capture_output=True, text=True)
        print(r.stdout[-1500:], "exit", r.returncode)
finally:
    subprocess.run(["git", "-C", "/repo", "checkout", "--", f])
