#!/usr/bin/env python3
"""reseed.py <seeded-id> [checks...]: re-run our checks against a kept seeded change (seeded/<id>/patch.diff)
in a scratch worktree of /repo HEAD ($SEEDED_EVAL_REPO, default /tmp/wt-dev) and update meta.json."""
import json, os, subprocess, sys
sid = sys.argv[1]
d = "/verif/seeded/" + sid
meta = json.load(open(d + "/meta.json"))
checks = sys.argv[2:] or [meta["property"]]
wt = os.environ.get("SEEDED_EVAL_REPO", "/tmp/wt-dev")
def sh(cmd, cwd):
    return subprocess.run(cmd, cwd=cwd, capture_output=True, text=True)
sh(["git", "checkout", "--", "."], wt)
r = sh(["git", "apply", d + "/patch.diff"], wt)
assert r.returncode == 0, r.stderr
env = dict(os.environ, VERIF_REPO=wt, VERIF_EVIDENCE_DIR=wt + ".evidence", VERIF_REPLAY_DIR=wt + ".replays")
tiers = os.environ.get("SEEDED_TIERS", "quick thorough").split()
try:
    for c in checks:
        for tier in tiers:
            r = subprocess.run(["/verif/check", c, tier], capture_output=True, text=True, timeout=4000, env=env)
            lines = [l for l in r.stdout.splitlines() if l.startswith(("VIOLATION", "  harness", "KNOWN", "INCONCLUSIVE", "ENCODER", "INCOMPLETE", "property="))]
            meta["checks_run"]["%s %s" % (c, tier)] = {"exit": r.returncode, "lines": lines[:12]}
            print("check %s %s: exit %d" % (c, tier, r.returncode)); print("\n".join("   " + l for l in lines[:8]))
            if r.returncode == 1:
                break
finally:
    sh(["git", "checkout", "--", "."], wt)
meta["detected_by"] = [k for k, v in meta["checks_run"].items() if v["exit"] == 1]
json.dump(meta, open(d + "/meta.json", "w"), indent=1)
print(sid, "detected_by:", meta["detected_by"])
