#!/usr/bin/env python3
"""Regenerates /verif/MANIFEST.json from props.py (claimed) and na.py (not applicable)."""
import json, os, sys
VERIF = os.path.dirname(os.path.dirname(os.path.abspath(__file__)))
sys.path.insert(0, VERIF)
from props import PROPS
from meta import META, NOT_APPLICABLE, HOOK_COMMITS

checks = []
for pid in sorted(PROPS):
    m = META[pid]
    checks.append({
        "property_id": pid,
        "quick_cmd": "/verif/check %s quick" % pid,
        "thorough_cmd": "/verif/check %s thorough" % pid,
        "evidence_file": "/verif/evidence/%s.json" % pid,
        "replay_cmd_template": "/verif/check %s --replay {path}" % pid,
        "engine": "gosym",
        "level_claimed": {"category": PROPS[pid].get("level", "model_checking"), "text": m["text"], "design_ref": m.get("design_ref", "DESIGN.md §4 " + pid)},
        "level_note": m["note"],
        "technique": m.get("technique", "bounded symbolic execution of the real code from go/ssa + SMT (z3): assertions decided for all inputs within stated bounds; counterexamples replayed natively"),
    })
man = {
    "version": 1,
    "setup_cmd": "cd /verif/gosym && GOFLAGS=-mod=mod GOPROXY=off GOSUMDB=off GOTOOLCHAIN=local go build -o /verif/bin/gosym .",
    "hooks": {
        "guard": "verif",
        "enable": "none needed: harnesses are injected as in-package files through go/packages Overlay (symbolic side) and `go test -overlay` (native replay); the build tag `verif` is reserved and currently guards nothing",
        "baseline_off_cmd": "cd /repo && go test -vet=off -count=1 -timeout 25m ./... ; rc=$?; git -C /repo checkout -- vis-test.html; exit $rc",
        "source_commits": HOOK_COMMITS,
        "add_only": True,
    },
    "engines": [{"name": "gosym", "path": "/verif/gosym", "serves_properties": sorted(PROPS),
                 "kind_free_text": "own symbolic executor for Go: go/ssa (x/tools v0.29.0, fork of go/ssa/interp) -> SMT-LIB2 bit-vector/floating-point terms, forking by re-execution, z3 5.1.0 over stdin; encoding regenerated from /repo's working tree on every run"}],
    "checks": checks,
    "not_applicable": [{"property_id": k, "reason": v} for k, v in sorted(NOT_APPLICABLE.items()) if k not in PROPS],
    "notes": "All checks are solver-based: gosym symbolically executes harness functions (package rapid, /verif/harness) that call the real functions of /repo; see DESIGN.md.",
}
json.dump(man, open(os.path.join(VERIF, "MANIFEST.json"), "w"), indent=1)
# guard: every harness file must type-check against /repo as it is (gosym drops files that do not, which
# is meant for mutated trees; on the unchanged tree it would silently disable checks)
import subprocess
_g = os.path.join(VERIF, "bin", "gosym")
if os.path.exists(_g):
    _r = subprocess.run([_g, "-repo", "/repo", "-harness-dir", os.path.join(VERIF, "harness"), "-list"], capture_output=True, text=True,
                        env=dict(os.environ, GOFLAGS="-mod=mod", GOPROXY="off", GOSUMDB="off", GOTOOLCHAIN="local"))
    if _r.returncode != 0:
        print("ERROR: harness files do not type-check against /repo:\n" + _r.stderr)
        sys.exit(1)
print("wrote MANIFEST.json with", len(checks), "checks,", len(man["not_applicable"]), "not applicable")
