#!/usr/bin/env python3
"""Adds the one-line 'needs' (what the change needs in order to manifest; condensed from notes.md) to seeded/*/meta.json."""
import json, os
NEEDS = {
 "C01-1": "unusual input + timing: a value-dependent failure message and the shrink deadline expiring between the two runs of accept() for a still-failing candidate",
 "C01-2": "unusual input: a bounded-integer draw with 8 out-of-range samples in a row inside the failing test case, then prune + replay (shrinktime=0 / no reproducing candidate)",
 "C02-1": "three things at once: non-fatal failure (Errorf/Fail) raised inside a Cleanup callback registered on the inner T of a Custom generator",
 "C02-2": "multi-step: a fatal signal (Fatalf/FailNow) whose panic is recovered by user code or superseded by a later skip during unwinding",
 "C03-1": "unusual parameter: an element generator for StringOf* that can yield an unencodable rune (surrogate, > MaxRune) + maxLen reached",
 "C03-2": "unusual type parameter: Make on a type that is or contains a zero-field struct (two cooperating sites: genAnyStruct and endGroup's assertion)",
 "C04-1": "unusual input: nine consecutive out-of-range samples in one integer draw (span just above a power of two), then prune + replay",
 "C04-2": "Make-derived map generator with a small key domain drawing a duplicate key, then prune + replay (two cooperating sites)",
 "C05-1": "two failure sites whose call stacks share their innermost 16 frames (deep recursion / nested Custom) and a shrink step from one to the other",
 "C05-2": "two run-time-error failure sites with identical messages (two nil dereferences) and a shrink step from one to the other",
 "C06-1": "a fail file larger than the scanner's 4096-byte buffer whose data lines straddle a buffer refill",
 "C06-2": "unusual input: a test name whose sanitised form is exactly a Windows reserved device name (nul, con, com1..)",
 "C07-1": "multi-step: t.Context() called inside a Cleanup callback, visible from the 2nd test case on the same T",
 "C07-2": "a run in which invalid (skipped) test cases precede the first falsified one",
 "C08-1": "an action that skips after drawing, with an invariant whose execution is observable",
 "C08-2": "an invariant already falsified by the initial state with a non-fatal signal",
 "C09-1": "a skip pattern that sits exactly on the 10*N budget boundary followed by the N-th valid case",
 "C09-2": "a valid fail file present and a property that fails on the first replay but passes on the second (non-deterministic)",
 "C10-1": "generation phase, a cleanup that skips as the last cleanup of an invocation, and the next invocation calling t.Context()",
 "C10-2": "a cleanup (not the first registered) that registers another cleanup while running",
 "C11-1": "Errorf followed by a library-raised invalid-data end (Filter exhausting its tries) and a later passing case",
 "C11-2": "two-step history: case N calls t.Context() from a Cleanup, case N+1 depends on a live context",
 "C12-1": "two failing Checks in one process on neighbouring thresholds (pooled shrinker keeps a stale rejection cache)",
 "C12-2": "Uint64/Uint threshold in (2^63, max) reached through the overflow path: the all-ones data block is never minimised",
 "C13-1": "input length not a multiple of 8 and > 8 with non-zero bytes in the preceding word at positions beyond the tail",
 "C13-2": "the empty input with a property that does not draw",
 "C14-1": "a particular interleaving: two goroutines both between RUnlock and Lock of the first Context() call",
 "C14-2": "a particular interleaving: a goroutine still alive in the cleanup phase calling t.Cleanup while cleanup() pops",
 "C15-1": "a fresh generator shared by two checks whose first String() calls overlap (also via SliceOf/MapOf labels)",
 "C15-2": "a Make generator for a struct/array type shared by two concurrently drawing checks",
 "C16-1": "a crash between creating the temp file and renaming it",
 "C16-2": "a crash right after the rename and before the final buffered flush, file tail still in the 4 KiB buffer",
 "C17-1": "a truncated fail file whose last data line is exactly one character long",
 "C17-2": "a fail file from another version whose version string has the current one as a strict prefix and whose data fails the property",
 "C18-1": "two Check calls under the same test name in one process",
 "C18-2": "an unsigned generator whose span has bit length 64 (max-min >= 2^63): two cooperating sites (clamp + overflow condition)",
}
for k, v in NEEDS.items():
    p = "/verif/seeded/%s/meta.json" % k
    if os.path.exists(p):
        m = json.load(open(p)); m["needs"] = v; json.dump(m, open(p, "w"), indent=1)
print("ok")
