#!/usr/bin/env python3
"""seeded.py <prop> <n> [checks...]: confirm a sub-agent's seeded change and run our checks against it.
Reads /tmp/out-<prop>/<n>/{patch.diff, zz_demo_*_test.go, notes.md}; uses scratch worktree /tmp/wt-<prop>.
Stores the kept change under /verif/seeded/<prop>-<n>/ with meta.json."""
import glob, json, os, shutil, subprocess, sys
prop, n = sys.argv[1], sys.argv[2]
checks = sys.argv[3:] or [prop]
out = "/tmp/out-%s/%s" % (prop, n)
wt = "/tmp/wt-%s" % prop
env = dict(os.environ, GOFLAGS="-mod=mod", GOPROXY="off", GOSUMDB="off", GOTOOLCHAIN="local")
def sh(cmd, cwd, **kw):
    return subprocess.run(cmd, cwd=cwd, env=env, capture_output=True, text=True, **kw)
patch = os.path.join(out, "patch.diff")
demos = sorted(glob.glob(os.path.join(out, "zz_demo*_test.go")))
meta = {"property": prop, "source": "independent sub-agent, given only the property text and a scratch worktree", "checks_run": {}}
# 1. confirm in scratch worktree
sh(["git", "checkout", "--", "."], wt); sh(["git", "clean", "-fdxq"], wt)
r = sh(["git", "apply", "--check", patch], wt)
assert r.returncode == 0, "patch does not apply: " + r.stderr
sh(["git", "apply", patch], wt)
r = sh(["go", "test", "-vet=off", "-count=1", "./..."], wt, timeout=900)
meta["suite_passes_with_change"] = r.returncode == 0
print("suite with change:", "PASS" if r.returncode == 0 else "FAIL\n" + r.stdout[-800:])
for d in demos:
    shutil.copy(d, wt)
RACE = ["-race"] if (os.environ.get("SEEDED_RACE") or prop in ("C14", "C15")) else []
meta["demo_run_with_race_detector"] = bool(RACE)
r = sh(["go", "test", "-vet=off", "-count=1"] + RACE + ["-run", "Demo", "."], wt, timeout=1800)
meta["demo_fails_with_change"] = r.returncode != 0
print("demo with change:", "FAILS (expected)" if r.returncode != 0 else "passes (UNEXPECTED)")
sh(["git", "checkout", "--", "."], wt)
r = sh(["go", "test", "-vet=off", "-count=1"] + RACE + ["-run", "Demo", "."], wt, timeout=1800)
meta["demo_passes_without_change"] = r.returncode == 0
print("demo without change:", "passes (expected)" if r.returncode == 0 else "FAILS (UNEXPECTED)\n" + r.stdout[-800:])
sh(["git", "clean", "-fdxq"], wt)
ok = meta["suite_passes_with_change"] and meta["demo_fails_with_change"] and meta["demo_passes_without_change"]
# 2. our checks against /repo with the change
EVAL = os.environ.get("SEEDED_EVAL_REPO", "/repo")  # /repo itself, or a scratch worktree of its HEAD
if ok:
    r = sh(["git", "apply", patch], EVAL)
    assert r.returncode == 0, r.stderr
    cenv = dict(os.environ)
    if EVAL != "/repo":
        cenv.update(VERIF_REPO=EVAL, VERIF_EVIDENCE_DIR=EVAL + ".evidence", VERIF_REPLAY_DIR=EVAL + ".replays")
    try:
        for c in checks:
            for tier in os.environ.get("SEEDED_TIERS", "quick thorough").split():
                r = subprocess.run(["/verif/check", c, tier], capture_output=True, text=True, timeout=3600, env=cenv)
                lines = [l for l in r.stdout.splitlines() if l.startswith(("VIOLATION", "  harness", "KNOWN", "INCONCLUSIVE", "ENCODER", "INCOMPLETE", "property="))]
                meta["checks_run"]["%s %s" % (c, tier)] = {"exit": r.returncode, "lines": lines[:12]}
                print("check %s %s: exit %d" % (c, tier, r.returncode)); print("\n".join("   " + l for l in lines[:12]))
                if r.returncode == 1:
                    break
    finally:
        sh(["git", "checkout", "--", "."], EVAL)
meta["detected_by"] = [k for k, v in meta["checks_run"].items() if v["exit"] == 1]
dst = "/verif/seeded/%s-%s" % (prop, n)
if ok:
    os.makedirs(dst, exist_ok=True)
    shutil.copy(patch, dst)
    for d in demos:
        shutil.copy(d, os.path.join(dst, os.path.basename(d).replace("_test.go", "_test.go.txt")))
    if os.path.exists(os.path.join(out, "notes.md")):
        shutil.copy(os.path.join(out, "notes.md"), dst)
    meta["what_i_ran"] = "git apply patch.diff in a scratch worktree; go test -vet=off -count=1 ./... (suite passes); go test -run TestDemo with the change (fails) and without (passes); then git apply to /repo (or to a scratch worktree of /repo HEAD given to the check through VERIF_REPO), /verif/check <prop> quick|thorough, git checkout -- ."
    json.dump(meta, open(os.path.join(dst, "meta.json"), "w"), indent=1)
print("KEPT" if ok else "REJECTED", dst, "detected_by:", meta["detected_by"])
