package rapid

// Harness API, symbolic side: declarations without bodies. gosym intercepts
// calls to these by name. The native twin is api_native.go.

func nondetU64(name string) uint64
func nondetI64(name string) int64
func nondetInt(name string) int
func nondetUint(name string) uint
func nondetU32(name string) uint32
func nondetI32(name string) int32
func nondetU16(name string) uint16
func nondetI16(name string) int16
func nondetU8(name string) uint8
func nondetI8(name string) int8
func nondetBool(name string) bool
func nondetF64(name string) float64
func nondetF32(name string) float32

// assume discards the current path unless c holds.
func assume(c bool)

// vassert is the property: it must hold for every value of the nondets on this path.
func vassert(c bool, msg string)

// reach marks a label as reached (vacuity witness).
func reach(label string)

// observe records a value for the differential (native vs. executor) comparison.
func observe(name string, v uint64)

// choose returns a value in [0,n), case-split into separate paths.
func choose(name string, n int) int

// concretizeInt / concretizeU64 case-split a symbolic value into concrete ones.
func concretizeInt(x int) int
func concretizeU64(x uint64) uint64

// symbolic reports whether the harness runs under gosym.
func symbolic() bool

// runIsolated runs f the way the testing package runs a test function: a call to
// runtime.Goexit inside f ends f (running its deferred calls) and is reported as true.
func runIsolated(f func()) bool

// thorough reports whether the check runs in the thorough tier (deeper bounds).
func thorough() bool

// bOr / bAnd / bImplies are non-short-circuit boolean connectives: they build one
// symbolic condition instead of forking the path the way || and && do.
func bOr(a, b bool) bool
func bAnd(a, b bool) bool
func bImplies(a, b bool) bool

// symKey returns the text the executor's fmt model prints for x (the decimal value natively).
func symKey(x uint64) string

// runUntilCrash runs f; a call to crashNow inside f ends it the way a process kill
// would (no deferred call runs) and is reported as true.
func runUntilCrash(f func()) bool
func crashNow()

// scratchDir returns a directory for files the harness creates ("" under gosym, where the
// in-memory file system is used; a fresh temporary directory natively); scratchDone removes it.
func scratchDir() string
func scratchDone(dir string)

// symClock(true) makes the clock symbolic: every time.Now() is an arbitrary instant not
// earlier than the previous one, so the solver decides where deadlines fall.
func symClock(on bool)

// pickU64 fixes x to some value the current path allows, without exploring the other values.
// Only for existential witnesses: the harness needs some value, not every value.
func pickU64(x uint64) uint64

// concurrent(p) enters the executor's concurrent mode: goroutines started by `go` are
// interleaved at synchronisation operations, with at most p preemptive context switches.
func concurrent(p int)

// concRounds is how often a concurrent scenario is repeated (1 under gosym; natively
// $VERIF_ROUNDS, so that the race detector sees many real schedules).
func concRounds() int

// barrierReset/Wait/Open: a start barrier for natively running goroutines (no-ops under gosym).
func barrierReset()
func barrierWait()
func barrierOpen()

// hLock/hUnlock protect the harness's own bookkeeping natively; under gosym they are no-ops
// (one goroutine executes at a time and harness code is not watched by the race monitor),
// so that the harness adds no happens-before edges of its own.
func hLock()
func hUnlock()

// cutLoop arms a loop cut-point (one inductive step of a real loop): when execution first reaches
// a loop header in a function whose name ends in fn, every loop-carried integer/boolean variable
// gets a fresh nondeterministic value and pre() runs (havoc heap state, assume the invariant);
// after one iteration, on the back edge, post() runs (assert invariant and variant) and the
// path ends. loopVar* read the loop-carried variables by source name. No-ops natively.
func cutLoop(fn string, pre func(), post func())
func loopVarInt(name string) int
func loopVarU64(name string) uint64
func loopVarI64(name string) int64

// cutActive reports whether cutLoop takes effect (symbolic exploration under gosym); false
// natively and in the executor's concrete replay mode, where loops run from their real start.
func cutActive() bool

// streamSeed returns the seed the PRNG of r was last initialised with (under gosym only).
func streamSeed(r *randomBitStream) uint64

// loopFrameValue returns, inside pre()/post() of a cut loop, the first value in the loop's
// frame whose type prints as typ (e.g. "*pgregory.net/rapid.randomBitStream").
func loopFrameValue(typ string) any

// tickingTimestamps(true): the wall clock may cross a second boundary between any two formatted
// timestamps (each time.Time.Format is a case split "same second / next second").
func tickingTimestamps(on bool)
