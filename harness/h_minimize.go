package rapid

// C12: minimisation reaches the exact boundary on threshold properties.
//
// Whole-shrink symbolic execution is out of reach (the binary search alone, unrolled, does not
// finish at 16-bit width), so the property is decided lemma by lemma on the real code; DESIGN.md
// section 4 (C12) composes the lemmas on paper:
//
//   fixpoint   shrink() only stops (given time) after a round in which no candidate was accepted;
//   offers     in such a round every block i was offered the values 0..4 below it and (block-1),
//              and every standalone group was offered for removal        (H_C12_offers, H_C12_minimize*)
//   local min  a failing recording in which none of these candidates fails decodes to the exact
//              boundary                                                  (H_C12_localMin, H_C12_slice)
//   shape      the recordings the shrinker can hold: an "overflow" draw keeps its all-ones data
//              word until the bias block has left overflow mode          (H_C12_shape, H_C12_monotone)

import (
	"fmt"
	"math"
	"time"
)

// ---- the twelve full-range integer kinds, type-erased ----

type c12kind struct {
	name   string
	signed bool
	width  int
	val    func(t *T) (int64, uint64) // the real generator's value as (signed, unsigned)
}

func c12kinds() []c12kind {
	return []c12kind{
		{"Int8", true, 8, func(t *T) (int64, uint64) { return int64(Int8().value(t)), 0 }},
		{"Int16", true, 16, func(t *T) (int64, uint64) { return int64(Int16().value(t)), 0 }},
		{"Int32", true, 32, func(t *T) (int64, uint64) { return int64(Int32().value(t)), 0 }},
		{"Int64", true, 64, func(t *T) (int64, uint64) { return Int64().value(t), 0 }},
		{"Int", true, 64, func(t *T) (int64, uint64) { return int64(Int().value(t)), 0 }},
		{"Uint8", false, 8, func(t *T) (int64, uint64) { return 0, uint64(Uint8().value(t)) }},
		{"Uint16", false, 16, func(t *T) (int64, uint64) { return 0, uint64(Uint16().value(t)) }},
		{"Uint32", false, 32, func(t *T) (int64, uint64) { return 0, uint64(Uint32().value(t)) }},
		{"Uint64", false, 64, func(t *T) (int64, uint64) { return 0, Uint64().value(t) }},
		{"Uint", false, 64, func(t *T) (int64, uint64) { return 0, uint64(Uint().value(t)) }},
		{"Byte", false, 8, func(t *T) (int64, uint64) { return 0, uint64(Byte().value(t)) }},
		{"Uintptr", false, 64, func(t *T) (int64, uint64) { return 0, uint64(Uintptr().value(t)) }},
	}
}

func (k c12kind) words() int {
	if k.signed {
		return 3 // sign coin, bias, data
	}
	return 2 // bias, data
}

// decode replays buffer d through the real generator.
func (k c12kind) decode(d []uint64) (ok bool, sv int64, uv uint64) {
	t := newT(nil, newBufBitStream(append([]uint64(nil), d...), false), false, nil)
	p := catch(func() { sv, uv = k.val(t) })
	return p == nil, sv, uv
}

// record runs the real generator on w through a recording stream and returns the pruned
// recording: exactly what the shrinker holds after accepting the buffer w.
func (k c12kind) record(w []uint64) (ok bool, d []uint64, sv int64, uv uint64) {
	s := newBufBitStream(append([]uint64(nil), w...), true)
	t := newT(nil, s, false, nil)
	p := catch(func() { sv, uv = k.val(t) })
	if p != nil {
		return false, nil, 0, 0
	}
	rec := s.recordedBits
	rec.prune()
	return true, rec.data, sv, uv
}

// threshold properties: dir 0 fails iff v >= k, dir 1 fails iff v <= k
func c12fails(kd c12kind, dir int, sv int64, uv uint64, ks int64, ku uint64) bool {
	if kd.signed {
		if dir == 0 {
			return sv >= ks
		}
		return sv <= ks
	}
	if dir == 0 {
		return uv >= ku
	}
	return uv <= ku
}

// the failing value closest to zero
func c12boundary(kd c12kind, dir int, ks int64, ku uint64) (int64, uint64) {
	if kd.signed {
		if dir == 0 && ks > 0 {
			return ks, 0
		}
		if dir == 1 && ks < 0 {
			return ks, 0
		}
		return 0, 0
	}
	if dir == 0 {
		return 0, ku
	}
	return 0, 0
}

func c12threshold(kd c12kind) (int64, uint64) {
	if kd.signed {
		ks := nondetI64("k")
		if kd.width < 64 {
			lim := int64(1) << uint(kd.width-1)
			assume(bAnd(ks >= -lim, ks < lim))
		}
		return ks, 0
	}
	ku := nondetU64("k")
	if kd.width < 64 {
		assume(ku < uint64(1)<<uint(kd.width))
	}
	return 0, ku
}

func with(d []uint64, i int, v uint64) []uint64 {
	c := append([]uint64(nil), d...)
	c[i] = v
	return c
}

// overflowDraw reports whether the draw recorded in d ignores its data word ("overflow to the
// maximum" mode of genUintNBiased): observationally, a zero data word still gives a non-zero value.
func (k c12kind) overflowDraw(d []uint64) bool {
	last := len(d) - 1
	ok, sv, uv := k.decode(with(d, last, 0))
	if !ok {
		return false
	}
	if k.signed {
		// magnitude: the non-negative branch yields u, the negative one -(1+u)
		return bAnd(sv != 0, sv != -1)
	}
	return uv != 0
}

// H_C12_localMin: a failing recording of one full-range draw in which no block can be lowered by
// one and still fail decodes to the exact boundary - for every kind, both directions, every
// threshold, at full width.
func H_C12_localMin() {
	kd := c12kinds()[choose("kind", 12)]
	dir := choose("dir", 2)
	ks, ku := c12threshold(kd)
	ok, d, sv, uv := kd.record(symWords("w", kd.words()))
	assume(ok)
	assume(len(d) == kd.words())
	assume(c12fails(kd, dir, sv, uv, ks, ku))
	// shape of the recordings the shrinker holds (H_C12_shape): an overflow draw still has the
	// all-ones data word the PRNG stream recorded for it
	if kd.overflowDraw(d) {
		assume(d[len(d)-1] == math.MaxUint64)
		reach("overflow")
	} else {
		reach("plain")
	}
	for i := range d {
		okc, svc, uvc := kd.decode(with(d, i, d[i]-1))
		stillFails := false
		if okc {
			stillFails = c12fails(kd, dir, svc, uvc, ks, ku)
		}
		assume(bOr(d[i] == 0, !stillFails)) // fixpoint: the candidate d[i]-1 was offered and rejected
	}
	bs, bu := c12boundary(kd, dir, ks, ku)
	vassert(bAnd(sv == bs, uv == bu), "C12: a recording in which no block can be lowered by one is not at the exact boundary")
	reach("local-minimum")
}

// H_C12_monotone: lowering the bias word or the data word of a recording never moves the value
// away from zero and never changes its sign (so the conditions handed to minimize() for these
// blocks are monotone and its binary search is exact), and coin word 0 selects the non-negative side.
func H_C12_monotone() {
	kd := c12kinds()[choose("kind", 12)]
	w := symWords("w", kd.words())
	ok, d, sv, uv := kd.record(w)
	assume(ok)
	assume(len(d) == kd.words())
	blk := len(d) - 1 - choose("block", 2) // data word, bias word
	lower := nondetU64("lower")
	assume(lower < d[blk])
	okc, svc, uvc := kd.decode(with(d, blk, lower))
	vassert(okc, "C12: lowering a block makes the recording undecodable")
	if !okc {
		return
	}
	if kd.signed {
		vassert(bOr(bAnd(sv >= 0, bAnd(svc >= 0, svc <= sv)), bAnd(sv < 0, bAnd(svc < 0, svc >= sv))), "C12: lowering the bias or data word moved a signed value away from zero or across zero")
		ok0, sv0, _ := kd.decode(with(d, 0, 0))
		vassert(bAnd(ok0, sv0 >= 0), "C12: sign coin word 0 does not select the non-negative side")
	} else {
		vassert(uvc <= uv, "C12: lowering the bias or data word increased an unsigned value")
	}
	reach("compared")
}

// H_C12_shape: (a) a recording made from the PRNG stream stores all-ones for the data word of an
// overflow draw; (b) from such a recording the bias block can leave overflow mode without the
// value changing: some non-overflow bias word still decodes (with the all-ones data word) to the
// same extreme value, so the failing condition of the bias block is not minimal in overflow mode.
func H_C12_shape() {
	kd := c12kinds()[choose("kind", 12)]
	// (a) real randomBitStream with arbitrary PRNG output
	s := newRandomBitStream(nondetU64("seed"), true)
	t := newT(nil, s, false, nil)
	var sv int64
	var uv uint64
	p := catch(func() { sv, uv = kd.val(t) })
	assume(p == nil)
	rec := s.recordedBits
	rec.prune()
	d := rec.data
	assume(len(d) == kd.words())
	if !kd.overflowDraw(d) {
		reach("prng-plain")
		return
	}
	reach("prng-overflow")
	vassert(d[len(d)-1] == math.MaxUint64, "C12: the PRNG stream records something other than all-ones for the data word of an overflow draw")
	// (b) escape witness
	b := nondetU64("b")
	assume(b < d[len(d)-2])
	e := with(d, len(d)-2, b)
	if kd.overflowDraw(e) {
		return
	}
	okc, svc, uvc := kd.decode(e)
	if okc && svc == sv && uvc == uv {
		reach("escape-" + kd.name)
	}
}

// ---- minimize() ----

// H_C12_minimizeExact: for a threshold condition the real minimize() returns exactly the
// threshold (all u below 2^W, all thresholds), and with a condition that never holds it offers
// every value 0..4 below u and u-1, and returns u.
func H_C12_minimizeExact() {
	W := uint(6)
	if thorough() {
		W = 8
	}
	u := nondetU64("u")
	assume(u < 1<<W)
	if choose("mode", 2) == 0 {
		th := nondetU64("theta")
		assume(th <= u)
		calls := 0
		r := minimize(u, func(x uint64, label string) bool {
			calls++
			return x >= th
		})
		vassert(r == th, "C12: minimize() does not return the threshold of a monotone condition")
		reach("threshold")
		return
	}
	var asked []uint64
	r := minimize(u, func(x uint64, label string) bool {
		asked = append(asked, x)
		return false
	})
	vassert(r == u, "C12: minimize() changed a block although no candidate was accepted")
	for j := uint64(0); j < 5; j++ {
		if j < u {
			vassert(askedFor(asked, j), "C12: minimize() does not try the small values 0..4")
		}
	}
	if u > 0 {
		vassert(askedFor(asked, u-1), "C12: minimize() does not try block-1")
	}
	for _, x := range asked {
		vassert(x < u, "C12: minimize() offers a value that is not smaller")
	}
	reach("nothing-accepted")
}

func askedFor(asked []uint64, v uint64) bool {
	ok := false
	for _, x := range asked {
		ok = bOr(ok, x == v)
	}
	return ok
}

// H_C12_binSearchStep: full-width facts about the minimizer's building blocks: accept() takes
// exactly the smaller, not-small values for which the condition holds; binSearch() probes best-1
// first and stops, unchanged, if that is rejected.
func H_C12_binSearchStep() {
	best := nondetU64("best")
	assume(best > small)
	if choose("which", 2) == 0 {
		u := nondetU64("u")
		holds := nondetBool("holds")
		m := &minimizer{best: best, cond: func(x uint64, label string) bool {
			vassert(x == u, "C12: accept() asks the condition about another value")
			return holds
		}}
		r := m.accept(u, "probe")
		want := bAnd(bAnd(u < best, u >= small), holds)
		vassert(r == want, "C12: accept() does not take exactly the smaller values for which the condition holds")
		if r {
			vassert(m.best == u, "C12: accept() returned true without updating best")
			reach("accepted")
		} else {
			vassert(m.best == best, "C12: accept() changed best although it rejected the value")
			reach("rejected")
		}
		return
	}
	var asked []uint64
	m := &minimizer{best: best, cond: func(x uint64, label string) bool {
		asked = append(asked, x)
		return false
	}}
	m.binSearch()
	vassert(len(asked) == 1 && asked[0] == best-1 && m.best == best, "C12: binSearch() does not probe best-1 first (or goes on after it was rejected)")
	reach("probe")
}

// ---- what one round of the real shrinker offers ----

var c12Reps = []uint64{0, 1, 5, 6, 7, 1000, 1<<53 - 1, 1 << 63, math.MaxUint64 - 1, math.MaxUint64}

// offerProp draws two standalone groups of raw words (2 + 1) and fails only on the original buffer.
type offerProp struct {
	orig []uint64
	seen [][]uint64
}

func (o *offerProp) prop(t *T) {
	if bs, ok := t.s.(*bufBitStream); ok {
		o.seen = append(o.seen, append([]uint64(nil), bs.buf...))
	}
	var got []uint64
	g := t.s.beginGroup("A", true)
	got = append(got, t.s.drawBits(64), t.s.drawBits(64))
	t.s.endGroup(g, false)
	g = t.s.beginGroup("B", true)
	got = append(got, t.s.drawBits(64))
	t.s.endGroup(g, false)
	same := len(got) == len(o.orig)
	for i := range got {
		same = same && got[i] == o.orig[i]
	}
	if same {
		t.Fatalf("fails on the original buffer only")
	}
}

func (o *offerProp) offered(buf []uint64) bool {
	for _, s := range o.seen {
		if len(s) == len(buf) {
			eq := true
			for i := range s {
				eq = eq && s[i] == buf[i]
			}
			if eq {
				return true
			}
		}
	}
	return false
}

// offersOf runs the real shrink() on the recording of orig with a property that no candidate
// reproduces, and checks what was offered before it gave up.
func offersOf(orig []uint64, tag string) {
	o := &offerProp{orig: orig}
	s := newBufBitStream(append([]uint64(nil), orig...), true)
	err := checkOnce(newT(nil, s, false, nil), o.prop)
	vassert(err != nil && !err.isInvalidData(), "C12: harness property did not fail on its original buffer")
	o.seen = nil
	buf, err2 := shrink(nilTB{}, time.Now().Add(time.Hour), s.recordedBits, err, o.prop)
	vassert(len(buf) == len(orig) && err2 == err, "C12: shrink() changed a test case although no candidate reproduced the failure")
	for i := range orig {
		for j := uint64(0); j < 5 && j < orig[i]; j++ {
			vassert(o.offered(with(orig, i, j)), "C12: a round of the shrinker does not try the small values 0..4 for every block"+tag)
		}
		if orig[i] > 0 {
			vassert(o.offered(with(orig, i, orig[i]-1)), "C12: a round of the shrinker does not try block-1 for every block"+tag)
		}
	}
	vassert(o.offered(orig[2:]), "C12: a round of the shrinker does not offer every standalone group for removal"+tag)
	vassert(o.offered(orig[:2]), "C12: a round of the shrinker does not offer every standalone group for removal"+tag)
	for _, sb := range o.seen {
		vassert(compareData(sb, orig) < 0, "C12: the shrinker tried a candidate that is not smaller"+tag)
	}
}

// H_C12_offers: two shrink() runs in one process (the second must not be influenced by the first).
func H_C12_offers() {
	flags.debug, flags.debugvis = false, false
	orig := []uint64{c12Reps[choose("w0", len(c12Reps))], c12Reps[choose("w1", len(c12Reps))], c12Reps[choose("w2", len(c12Reps))]}
	offersOf(orig, "")
	reach("first-run")
	// a neighbouring test case shrunk afterwards in the same process
	next := with(orig, 2, orig[2]+1)
	if choose("second", 2) == 1 {
		next = with(orig, 1, orig[1]+1)
	}
	offersOf(next, " (second shrink in the same process)")
	reach("second-run")
}

// ---- collections: at least k elements ----

// collectionLocalMin: for a collection generator (run decodes a buffer to the number of elements
// and whether they are all zero) and the property "fails iff it has at least k elements": a
// failing recording from which no standalone group can be removed and in which no word can be
// lowered by one while still failing has exactly k elements (all zero if wantZero).
func collectionLocalMin(L, maxElems int, wantZero bool, what string, run func(buf []uint64, persist bool) (bool, int, bool, *bufBitStream)) {
	k := choose("k", maxElems+1)
	ok, n, zero, s := run(symWords("w", L), true)
	assume(ok)
	assume(n >= k)
	assume(n <= maxElems) // stated bound
	rec := s.recordedBits
	rec.prune()
	d := rec.data
	fails := func(buf []uint64) bool {
		okc, nc, _, _ := run(buf, false)
		return okc && nc >= k
	}
	// fixpoint of removeGroups: no standalone group can be dropped
	for _, gi := range rec.groups {
		if gi.standalone && gi.end >= 0 && gi.end-gi.begin < len(d) {
			assume(!fails(without(d, gi)))
		}
	}
	// fixpoint of minimizeBlocks: no word can be lowered by one
	for i := range d {
		assume(bOr(d[i] == 0, !fails(with(d, i, d[i]-1))))
	}
	vassert(n == k, "C12: a "+what+" recording that cannot be shrunk further has more than k elements")
	if wantZero {
		vassert(zero, "C12: a "+what+" recording that cannot be shrunk further has a non-zero element")
	}
	reach("local-minimum")
}

// H_C12_slice: SliceOf(Uint8()), at least k elements -> exactly k elements, all zero.
func H_C12_slice() {
	L := 7
	if thorough() {
		L = 9
	}
	g := SliceOf(Uint8())
	collectionLocalMin(L, L/3, true, "slice", func(buf []uint64, persist bool) (bool, int, bool, *bufBitStream) {
		s := newBufBitStream(append([]uint64(nil), buf...), persist)
		t := newT(nil, s, false, nil)
		var v []uint8
		p := catch(func() { v = g.value(t) })
		zero := true
		for _, e := range v {
			zero = bAnd(zero, e == 0)
		}
		return p == nil, len(v), zero, s
	})
}

// H_C12_sliceSigned: SliceOf(Int16()): elements have a sign coin as well.
func H_C12_sliceSigned() {
	L := 9
	g := SliceOf(Int16())
	collectionLocalMin(L, 2, true, "slice", func(buf []uint64, persist bool) (bool, int, bool, *bufBitStream) {
		s := newBufBitStream(append([]uint64(nil), buf...), persist)
		t := newT(nil, s, false, nil)
		var v []int16
		p := catch(func() { v = g.value(t) })
		zero := true
		for _, e := range v {
			zero = bAnd(zero, e == 0)
		}
		return p == nil, len(v), zero, s
	})
}

// H_C12_map: MapOf(Uint8(), Bool()), at least k entries -> exactly k entries.
func H_C12_map() {
	L := 8
	g := MapOf(Bool(), Bool())
	collectionLocalMin(L, L/4, false, "map", func(buf []uint64, persist bool) (bool, int, bool, *bufBitStream) {
		s := newBufBitStream(append([]uint64(nil), buf...), persist)
		t := newT(nil, s, false, nil)
		var v map[bool]bool
		p := catch(func() { v = g.value(t) })
		return p == nil, len(v), false, s
	})
}

// H_C12_string: StringOf over a small rune set, at least k runes -> exactly k runes.
func H_C12_string() {
	L := 7
	if thorough() {
		L = 10
	}
	g := StringOf(RuneFrom([]rune{'a', 'b', 'c', 'd'}))
	collectionLocalMin(L, L/3, false, "string", func(buf []uint64, persist bool) (bool, int, bool, *bufBitStream) {
		s := newBufBitStream(append([]uint64(nil), buf...), persist)
		t := newT(nil, s, false, nil)
		n := 0
		p := catch(func() {
			for range g.value(t) {
				n++
			}
		})
		return p == nil, n, false, s
	})
}

// H_C12_binSearchInduct: the binary search of the real minimizer at FULL 64-bit width, by one
// inductive step (loop cut-point). Condition x >= theta, effective threshold th = max(theta, small)
// (accept never takes values below `small`; those are handled by minimize()'s try-small loop).
//
//	invariant  i <= th <= j  and  m.best == j      variant  j - i decreases
//	exit       m.best == th
func H_C12_binSearchInduct() {
	theta := nondetU64("theta")
	best0 := nondetU64("best")
	assume(best0 > small)
	assume(theta <= best0) // the current best satisfies the condition
	th := theta
	if th < small {
		th = small
	}
	m := &minimizer{best: best0, cond: func(x uint64, label string) bool { return x >= theta }}
	var i0, j0 uint64
	cutLoop("minimizer).binSearch", func() {
		i0, j0 = loopVarU64("i"), loopVarU64("j")
		m.best = j0 // the loop carries m.best on the heap
		assume(bAnd(i0 <= th, th <= j0))
		assume(j0 <= best0)
	}, func() {
		i1, j1 := loopVarU64("i"), loopVarU64("j")
		vassert(bAnd(i1 <= th, th <= j1), "C12: binSearch loses the threshold (invariant i <= threshold <= j broken)")
		vassert(m.best == j1, "C12: binSearch's best is not its upper bound")
		vassert(j1-i1 < j0-i0, "C12: binSearch does not make progress")
		reach("iterated")
	})
	m.binSearch()
	// returned: either the first probe (best-1) was rejected, or the loop ran to its end
	vassert(m.best == th, "C12: binSearch does not end at the least value satisfying a monotone condition")
	reach("returned")
}

// H_C12_nativeEndToEnd (native only; confirmation of a failed C12 lemma): the statement itself,
// end to end, on the real Check machinery: threshold properties over integer kinds, both
// directions, thresholds of every magnitude (small, powers of two +-1, the top band), failing by
// Fatalf and by a panic whose message names the value, several seeds, swept in one process; and
// "at least k elements" for slices, strings and maps. The reported counterexample must be the
// exact boundary. Does nothing under gosym.
func H_C12_nativeEndToEnd() {
	if symbolic() {
		return
	}
	flags.nofailfile = true
	flags.checks = 100
	flags.shrinkTime = 30 * time.Second
	bad := 0
	final := func(prop func(*T)) bool {
		tb := newVTB("E2E")
		runIsolated(func() { checkTB(tb, time.Now().Add(time.Hour), prop) })
		return len(tb.errorfs) == 1
	}
	for seed := uint64(1); seed <= 3; seed++ {
		flags.seed = seed
		for _, usePanic := range []bool{false, true} {
			fail := func(t *T, v any) {
				if usePanic {
					panic(fmt.Sprintf("value %v is beyond the threshold", v))
				}
				t.Fatalf("beyond the threshold")
			}
			for _, k := range []int64{1, 5, 6, 100, 1000, 1<<31 + 1, 1<<40 + 12345, 1<<62 - 1, 1 << 62, 1<<62 + 1, math.MaxInt64 - 1} {
				var last int64
				if final(func(t *T) {
					v := Int64().Draw(t, "v")
					last = v
					if v >= k {
						fail(t, v)
					}
				}) && last != k {
					bad++
				}
				if final(func(t *T) {
					v := Int64().Draw(t, "v")
					last = v
					if v <= -k {
						fail(t, v)
					}
				}) && last != -k {
					bad++
				}
			}
			for _, k := range []uint64{1, 7, 255, 1 << 33, 1<<63 + 5, 1<<63 + 1<<62, 0xDEADBEEFCAFEF00D, math.MaxUint64 - 3} {
				// thresholds in the upper half are found in two ways (through the type maximum, or by an
				// ordinary full-width draw, a few percent of the seeds): sweep more seeds for them
				extra := uint64(0)
				if k > 1<<63 && seed == 1 && !usePanic {
					extra = 60
				}
				for s2 := uint64(0); s2 <= extra; s2++ {
					if s2 > 0 {
						flags.seed = 100 + s2
					}
					var last uint64
					if final(func(t *T) {
						v := Uint64().Draw(t, "v")
						last = v
						if v >= k {
							fail(t, v)
						}
					}) && last != k {
						bad++
					}
				}
				flags.seed = seed
			}
			for _, k := range []int8{1, 3, 100, 126} {
				var last int8
				if final(func(t *T) {
					v := Int8().Draw(t, "v")
					last = v
					if v >= k {
						fail(t, v)
					}
				}) && last != k {
					bad++
				}
			}
		}
		for _, k := range []int{0, 1, 2, 5, 17, 32} {
			var lastS []int
			if final(func(t *T) {
				s := SliceOf(Int()).Draw(t, "s")
				lastS = s
				if len(s) >= k {
					t.Fatalf("too long")
				}
			}) {
				ok := len(lastS) == k
				for _, e := range lastS {
					ok = ok && e == 0
				}
				if !ok {
					bad++
				}
			}
			var lastStr string
			if final(func(t *T) {
				s := String().Draw(t, "s")
				lastStr = s
				n := 0
				for range s {
					n++
				}
				if n >= k {
					t.Fatalf("too long")
				}
			}) {
				n := 0
				for range lastStr {
					n++
				}
				if n != k {
					bad++
				}
			}
			var lastM map[int]bool
			if k <= 17 && final(func(t *T) {
				m := MapOf(Int(), Bool()).Draw(t, "m")
				lastM = m
				if len(m) >= k {
					t.Fatalf("too big")
				}
			}) && len(lastM) != k {
				bad++
			}
		}
	}
	flags.seed = 0
	observe("not-at-boundary", uint64(bad))
	vassert(bad == 0, "C12: end to end, Check reported a counterexample that is not the exact boundary of a threshold property")
}
