package rapid

// C15: one generator value shared by concurrently running checks, each with its own T.
//
// For every generator family the harness builds the generator three times with the same
// constructor: one shared instance used by two goroutines (each with its own T and its own
// bitstream), and one private instance per goroutine on which the same operations are first run
// alone. Under gosym's concurrent mode every interleaving of the synchronisation operations
// (within the preemption bound) is explored; the happens-before monitor reports unordered
// conflicting accesses to the generator or to package-level state, and the assertions compare
// what each goroutine drew with what it draws when it runs alone.

import (
	"fmt"
	"regexp/syntax"
	"sync"
	"unicode"
)

// what a goroutine does with the shared generator
const (
	sDraw   = iota // g.Draw(t, "")
	sString        // g.String()
	sSub           // SliceOfN(g, 1, 2).Draw(t, ""): use as a sub-generator of a locally built one
	sOpCount
)

// c15inst is one instance of a generator family, type-erased.
type c15inst struct {
	draw func(t *T) string
	str  func() string
	sub  func(t *T) string
}

func instOf[V any](g *Generator[V]) c15inst {
	return c15inst{
		draw: func(t *T) string { return fmt.Sprint(g.Draw(t, "")) },
		str:  func() string { return g.String() },
		sub:  func(t *T) string { return fmt.Sprint(SliceOfN(g, 1, 2).Draw(t, "")) },
	}
}

var c15Digits = &unicode.RangeTable{R16: []unicode.Range16{{Lo: '0', Hi: '9', Stride: 1}}}

const c15Families = 18

// c15build constructs a fresh instance of family k. Everything reachable from the returned
// closures is private to the instance, except what the library itself shares process-wide.
func c15build(k int) c15inst {
	switch k {
	case 0:
		return instOf(Int8())
	case 1:
		return instOf(SliceOfN(Bool(), 0, 2))
	case 2:
		return instOf(Deferred(func() *Generator[bool] { return Bool() }))
	case 3:
		var rec *Generator[int]
		rec = Deferred(func() *Generator[int] { return OneOf(Just(1), Map(rec, func(x int) int { return x + 1 })) })
		return instOf(rec)
	case 4:
		return instOf(Custom(func(t *T) int {
			if Bool().Draw(t, "b") {
				return 1
			}
			return 0
		}))
	case 5:
		return instOf(Bool().Filter(func(b bool) bool { return b }))
	case 6:
		return instOf(Map(Bool(), func(b bool) int {
			if b {
				return 7
			}
			return 3
		}))
	case 7:
		return instOf(SampledFrom([]int{3, 4, 5}))
	case 8:
		return instOf(OneOf(Just(1), Just(2)))
	case 9:
		g := Ptr(Bool(), true)
		return c15inst{
			draw: func(t *T) string { return ptrStr(g.Draw(t, "")) },
			str:  func() string { return g.String() },
			sub: func(t *T) string {
				s := ""
				for _, p := range SliceOfN(g, 1, 2).Draw(t, "") {
					s += ptrStr(p) + ","
				}
				return s
			},
		}
	case 10:
		return instOf(MapOfN(Bool(), Bool(), 0, 2))
	case 11:
		return instOf(Permutation([]int{1, 2, 3}))
	case 12:
		// the package-level rune generator behind String()
		return instOf(StringN(0, 2, -1))
	case 13:
		// generators built at use time from a shared range table: the process-wide table cache
		return c15inst{
			draw: func(t *T) string { return fmt.Sprint(RuneFrom(nil, c15Digits).Draw(t, "")) },
			str:  func() string { return RuneFrom(nil, c15Digits).String() },
			sub:  func(t *T) string { return fmt.Sprint(SliceOfN(RuneFrom(nil, c15Digits), 1, 2).Draw(t, "")) },
		}
	case 14:
		// the regexp character-class caches (regexpName, charClassGen, expandRangeTable)
		re := &syntax.Regexp{Op: syntax.OpCharClass, Rune: []rune{'a', 'c'}}
		return c15inst{
			draw: func(t *T) string { return fmt.Sprint(charClassGen(re).Draw(t, "")) },
			str:  func() string { return regexpName(re) },
			sub:  func(t *T) string { return fmt.Sprint(SliceOfN(charClassGen(re), 1, 2).Draw(t, "")) },
		}
	case 15:
		return instOf(Bool().AsAny())
	case 16:
		return instOf(Float64Range(-1, 1))
	case 17:
		// a Deferred generator nested inside a collection
		return instOf(SliceOfN(Deferred(func() *Generator[int8] { return Int8() }), 1, 2))
	}
	panic("unknown family")
}

func ptrStr(p *bool) string {
	if p == nil {
		return "nil"
	}
	if *p {
		return "&true"
	}
	return "&false"
}

// Three bitstreams of different character (continue-heavy, mixed, high bits), so that the
// families reach their element generators and the different arms of their dice. Goroutine gi
// of a scenario with stream variant v uses a private copy of stream v; only the families that touch
// package-level state are run with every variant.
var c15Words = [][]uint64{
	{^uint64(0), 1, ^uint64(0), 3, 1 << 63, 5, 0, 1, 2, 0x7fffffffffffffff, 1, 0, 0, 9, 1, 1, 0, 4, 0, 0, 0, 0, 0, 0},
	{^uint64(0), ^uint64(0), 1, 0, 2, 0, 1 << 40, 1, 1, 0, 0, 7, 0, 1, 1, 0, 3, 0, 0, 0, 0, 0, 0, 0},
	{^uint64(0), 25, 7, 3, ^uint64(0), 37, 1 << 52, 5, ^uint64(0), 30, 1, 2, 1<<53 - 1, 22, 9, 0, 0, 21, 0, 0, 0, 0, 0, 0}, // low 6 bits in 20..39: the rune die picks a range table
}

func c15variant(family int) int {
	if family >= 12 && family <= 14 {
		return choose("stream", 3)
	}
	return 0
}

// c15Stride 0: all goroutines of a scenario read equal (but separate) bitstreams, so that they
// walk the same arms of a shared generator and meet the same lazily initialised slots.
const c15Stride = 0

// c15run performs ops on inst with a fresh T over the given words and returns what was observed.
func c15run(inst c15inst, ops []uint8, words []uint64) []string {
	var out []string
	t := newT(cTB{}, newBufBitStream(append([]uint64(nil), words...), false), false, nil)
	for _, op := range ops {
		op := op
		res := "invalid"
		p := catch(func() {
			switch op {
			case sDraw:
				res = inst.draw(t)
			case sString:
				res = inst.str()
			case sSub:
				res = inst.sub(t)
			}
		})
		if p != nil && !isInvalid(p) {
			res = "panic: " + fmt.Sprint(p)
		}
		out = append(out, res)
	}
	return out
}

func c15scenario(family int, progs [][]uint8, variant int) {
	// The concurrent phase comes FIRST, so that lazily initialised state that is not part of the
	// instance (package-level generators, process-wide caches) is still untouched when the
	// goroutines meet it; the reference runs on private instances follow.
	shared := c15build(family)
	got := make([][]string, len(progs))
	var wg sync.WaitGroup
	barrierReset()
	for gi := range progs {
		wg.Add(1)
		go func(gi int) {
			defer wg.Done()
			barrierWait()
			r := c15run(shared, progs[gi], c15Words[(variant+gi*c15Stride)%len(c15Words)])
			hLock()
			got[gi] = r
			hUnlock()
		}(gi)
	}
	barrierOpen()
	wg.Wait()
	// alone: every goroutine's operations on a private instance
	var alone [][]string
	for gi := range progs {
		alone = append(alone, c15run(c15build(family), progs[gi], c15Words[(variant+gi*c15Stride)%len(c15Words)]))
	}
	hLock()
	defer hUnlock()
	for gi := range progs {
		same := len(got[gi]) == len(alone[gi])
		for j := 0; same && j < len(got[gi]); j++ {
			same = got[gi][j] == alone[gi][j]
		}
		vassert(same, "C15: a check sharing a generator drew different values than the same check running alone")
		for _, r := range got[gi] {
			if r != "invalid" {
				reach("value")
			}
		}
	}
	reach("compared")
}

var c15Alphabet = []uint8{sDraw, sString, sSub}

// H_C15_shared: 2 goroutines, 2 operations each (first and later uses), every generator family.
func H_C15_shared() {
	p := 1
	if thorough() {
		p = 2
	}
	concurrent(p)
	family := choose("family", c15Families)
	progs := concProgs("g", 2, 2, c15Alphabet)
	assume(progs[0][0] <= progs[1][0])
	variant := c15variant(family)
	for r := concRounds(); r > 0; r-- {
		c15scenario(family, progs, variant)
	}
}

// H_C15_three: 3 goroutines, one operation each.
func H_C15_three() {
	concurrent(1)
	family := choose("family", c15Families)
	progs := concProgs("g", 3, 1, c15Alphabet)
	assume(progs[0][0] <= progs[1][0])
	assume(progs[1][0] <= progs[2][0])
	variant := c15variant(family)
	for r := concRounds(); r > 0; r-- {
		c15scenario(family, progs, variant)
	}
}
