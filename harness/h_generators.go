package rapid

// C03: generated values satisfy the contract, for every bitstream.

import (
	"math"
	"unicode/utf8"
)

func bitLenOf(x uint64) int {
	n := 0
	for ; x != 0; x >>= 1 {
		n++
	}
	return n
}

func drawOrInvalid(t *T, f func()) bool {
	p := catch(f)
	if p != nil {
		vassert(isInvalid(p), "C03: a generator panicked with something other than invalid data (internal assertion or run-time error)")
		reach("invalid")
		return false
	}
	reach("value")
	return true
}

func bufT(L int) *T { return newT(nil, newBufBitStream(symWords("w", L), false), false, nil) }

// H_C03_int64Range: Int64Range over symbolic bounds (sign split, MinInt64 handling).
func H_C03_int64Range() {
	min, max := nondetI64("min"), nondetI64("max")
	assume(min <= max)
	if !thorough() {
		// representative magnitudes of both ends (all in the thorough tier)
		assume(lenIn(uint64(min), 0, 1, 63, 64))
		assume(lenIn(uint64(-min), 0, 1, 63, 64))
		assume(lenIn(uint64(max), 0, 1, 63, 64))
		assume(lenIn(uint64(-max), 0, 1, 63, 64))
	}
	g := Int64Range(min, max)
	t := bufT(streamLen("L", 3, 4))
	var v int64
	if drawOrInvalid(t, func() { v = g.value(t) }) {
		vassert(min <= v && v <= max, "C03: Int64Range value out of range")
	}
}

// H_C03_int8Range: narrow kinds must not truncate.
func H_C03_int8Range() {
	min, max := nondetI8("min"), nondetI8("max")
	assume(min <= max)
	g := Int8Range(min, max)
	t := bufT(streamLen("L", 3, 4))
	var v int8
	if drawOrInvalid(t, func() { v = g.value(t) }) {
		vassert(min <= v && v <= max, "C03: Int8Range value out of range")
	}
}

func H_C03_uint8Range() {
	min, max := nondetU8("min"), nondetU8("max")
	assume(min <= max)
	g := Uint8Range(min, max)
	t := bufT(streamLen("L", 2, 3))
	var v uint8
	if drawOrInvalid(t, func() { v = g.value(t) }) {
		vassert(min <= v && v <= max, "C03: Uint8Range value out of range")
	}
}

func lenBounds() (int, int) {
	minLen := choose("minLen", 5) - 1 // -1..3
	maxLen := choose("maxLen", 5) - 1
	assume(maxLen < 0 || minLen <= maxLen)
	return minLen, maxLen
}

func checkLen(n, minLen, maxLen int, what string) {
	if minLen >= 0 {
		vassert(n >= minLen, "C03: "+what+" shorter than the minimum length")
	}
	if maxLen >= 0 {
		vassert(n <= maxLen, "C03: "+what+" longer than the maximum length")
	}
}

func H_C03_sliceN() {
	minLen, maxLen := lenBounds()
	g := SliceOfN(Bool(), minLen, maxLen)
	t := bufT(streamLen("L", 7, 7))
	var sl []bool
	if drawOrInvalid(t, func() { sl = g.value(t) }) {
		checkLen(len(sl), minLen, maxLen, "slice")
	}
}

func H_C03_sliceDistinct() {
	minLen, maxLen := lenBounds()
	g := SliceOfNDistinct(Bool(), minLen, maxLen, ID[bool])
	t := bufT(streamLen("L", 8, 11))
	var sl []bool
	if drawOrInvalid(t, func() { sl = g.value(t) }) {
		checkLen(len(sl), minLen, maxLen, "distinct slice")
		for i := range sl {
			for j := i + 1; j < len(sl); j++ {
				vassert(sl[i] != sl[j], "C03: SliceOfNDistinct returned duplicate keys")
			}
		}
	}
}

func H_C03_mapN() {
	minLen, maxLen := lenBounds()
	g := MapOfN(Bool(), Bool(), minLen, maxLen)
	t := bufT(streamLen("L", 9, 12))
	var m map[bool]bool
	if drawOrInvalid(t, func() { m = g.value(t) }) {
		checkLen(len(m), minLen, maxLen, "map")
	}
}

func H_C03_mapValues() {
	minLen, maxLen := lenBounds()
	g := MapOfNValues(Bool(), minLen, maxLen, func(b bool) bool { return !b })
	t := bufT(streamLen("L", 8, 11))
	var m map[bool]bool
	if drawOrInvalid(t, func() { m = g.value(t) }) {
		checkLen(len(m), minLen, maxLen, "map")
		for k, v := range m {
			vassert(k == !v, "C03: MapOfNValues key is not keyFn(value)")
		}
	}
}

var stringRunes = []rune{'a', 'é', '日', 0x1D11E, 0xD800}

// H_C03_stringN: rune count, byte length, valid UTF-8; the rune generator can produce an
// unencodable rune (a surrogate), which must be rejected, not written.
func H_C03_stringN() {
	minRunes := choose("minRunes", 4) - 1 // -1..2
	maxRunes := choose("maxRunes", 4) - 1
	maxLen := choose("maxLen", 7) - 1 // -1..5
	assume(maxRunes < 0 || minRunes <= maxRunes)
	assume(maxLen < 0 || maxLen >= maxRunes)
	pick := func(t *T) rune { return stringRunes[choose("r", len(stringRunes))] }
	_ = pick
	elem := Custom(func(t *T) rune {
		// a rune generator whose choice is made by the solver through the bitstream
		i := int(t.s.drawBits(3))
		if i >= len(stringRunes) {
			i = 0
		}
		return stringRunes[i]
	})
	g := StringOfN(elem, minRunes, maxRunes, maxLen)
	t := bufT(streamLen("L", 6, 9))
	var s string
	if drawOrInvalid(t, func() { s = g.value(t) }) {
		n := utf8.RuneCountInString(s)
		checkLen(n, minRunes, maxRunes, "string (runes)")
		if maxLen >= 0 {
			vassert(len(s) <= maxLen, "C03: string longer than maxLen bytes")
		}
		vassert(utf8.ValidString(s), "C03: string is not valid UTF-8")
		for _, r := range s {
			vassert(r != utf8.RuneError, "C03: string contains a rune the element generator did not produce (U+FFFD)")
		}
	}
}

func H_C03_permutation() {
	in := []int{10, 20, 30, 40}
	n := choose("n", 5)
	in = in[:n]
	orig := append([]int(nil), in...)
	g := Permutation(in)
	t := bufT(streamLen("L", 8, 10))
	var out []int
	if drawOrInvalid(t, func() { out = g.value(t) }) {
		vassert(len(out) == n, "C03: permutation has the wrong length")
		sum, seen := 0, 0
		for _, x := range out {
			sum += x
			seen |= 1 << uint(x/10)
		}
		want := 0
		for _, x := range orig {
			want |= 1 << uint(x/10)
		}
		vassert(seen == want, "C03: Permutation result is not a permutation of the input")
	}
	for i := range orig {
		vassert(in[i] == orig[i], "C03: Permutation modified its input slice")
	}
}

func H_C03_sampledOneOfPtr() {
	vals := []int{7, 8, 9}[:1+choose("n", 3)]
	t := bufT(streamLen("L", 6, 7))
	var v int
	if drawOrInvalid(t, func() { v = SampledFrom(vals).value(t) }) {
		ok := false
		for _, x := range vals {
			ok = ok || v == x
		}
		vassert(ok, "C03: SampledFrom returned a value that is not in the slice")
	}
	var w int
	if drawOrInvalid(t, func() { w = OneOf(Just(1), Just(2)).value(t) }) {
		vassert(w == 1 || w == 2, "C03: OneOf returned a value of none of its generators")
	}
	var p *bool
	if drawOrInvalid(t, func() { p = Ptr(Bool(), false).value(t) }) {
		vassert(p != nil, "C03: Ptr(_, allowNil=false) returned nil")
	}
}

func H_C03_filter() {
	calls := 0
	g := Bool().Filter(func(b bool) bool { calls++; return b })
	t := bufT(streamLen("L", 6, 7))
	var v bool
	if drawOrInvalid(t, func() { v = g.value(t) }) {
		vassert(v, "C03: Filter returned a value that does not satisfy the predicate")
	}
	vassert(calls <= small, "C03: Filter tried more often than documented")
}

// ---- floats (unsigned kernel on bit patterns; sign split separately) ----

// H_C03_ufloat64: genUfloatRange respects non-negative bounds; never NaN; infinite only if max is.
func H_C03_ufloat64() {
	min, max := nondetF64("min"), nondetF64("max")
	bmin, bmax := math.Float64bits(min), math.Float64bits(max)
	// non-negative, not NaN: sign bit clear, and not (exponent all ones with a non-zero fraction)
	assume(bmin>>63 == 0 && bmax>>63 == 0)
	assume(bmin <= 0x7ff0000000000000 && bmax <= 0x7ff0000000000000)
	assume(bmin <= bmax) // for non-negative floats the order of bit patterns is the order of values
	// stated bound: the exponents of the two ends are adjacent, or one end is denormal/zero or
	// infinite (the unrestricted query does not finish inside the thorough budget)
	emin, emax := int(bmin>>52), int(bmax>>52)
	assume(emax-emin <= 1 || emin == 0 || emax == 0x7ff)
	t := bufT(streamLen("L", 7, 7))
	var e int32
	var si, sf uint64
	if drawOrInvalid(t, func() { e, si, sf = genUfloatRange(t.s, min, max, float64SignifBits) }) {
		b := math.Float64bits(ufloat64FromParts(e, si, sf))
		vassert(bmin <= b && b <= bmax, "C03: Float64Range value out of range")
		vassert(b <= 0x7ff0000000000000, "C03: float generator produced a NaN")
	}
}

// H_C03_floatRange: Float64Range on three representative ranges with 8 symbolic words (every
// path of the real float kernel): the value is inside the range and not NaN, or the draw ends in
// invalid data - in particular on bitstreams no PRNG produces (an "overflow" draw whose data word
// is not all ones).
func H_C03_floatRange() {
	type rng struct{ lo, hi float64 }
	r := []rng{{1, 3072.5}, {-1.5, 2.5}, {0, math.Inf(1)}}[choose("range", 3)]
	g := Float64Range(r.lo, r.hi)
	t := newT(nil, newBufBitStream(symWords("w", 8), false), false, nil)
	var v float64
	p := catch(func() { v = g.value(t) })
	if p != nil {
		vassert(isInvalid(p), "C03: a generator panicked with something other than invalid data")
		reach("invalid")
		return
	}
	vassert(v >= r.lo && v <= r.hi, "C03: Float64Range value out of range (or NaN)")
	reach("value")
}
