package rapid

// Parts of the harness API shared by the symbolic and the native side.

// verifRuntimeError is what recover() returns for run-time panics under gosym.
type verifRuntimeError struct{ msg string }

func (e verifRuntimeError) Error() string { return "runtime error: " + e.msg }
func (e verifRuntimeError) RuntimeError() {}

// verifFmtError is the error type produced by the fmt.Errorf / errors.New stubs.
type verifFmtError struct{ msg string }

func (e *verifFmtError) Error() string { return e.msg }

// symWords returns n nondeterministic 64-bit words named <name>0..<name>n-1.
func symWords(name string, n int) []uint64 {
	buf := make([]uint64, 0, n)
	for i := 0; i < n; i++ {
		buf = append(buf, nondetU64(name+itoa(i)))
	}
	return buf
}

func itoa(i int) string {
	if i == 0 {
		return "0"
	}
	neg := i < 0
	if neg {
		i = -i
	}
	var b [20]byte
	p := len(b)
	for i > 0 {
		p--
		b[p] = byte('0' + i%10)
		i /= 10
	}
	if neg {
		p--
		b[p] = '-'
	}
	return string(b[p:])
}

// catch runs f and returns the value it panicked with (nil if it returned).
func catch(f func()) (p any) {
	defer func() { p = recover() }()
	f()
	return nil
}

// isInvalid reports whether a recovered panic value is rapid's "invalid data" signal.
func isInvalid(p any) bool {
	_, ok := p.(invalidData)
	return ok
}
