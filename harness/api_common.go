package rapid

// Parts of the harness API shared by the symbolic and the native side.

// verifRuntimeError is what recover() returns for run-time panics under gosym.
type verifRuntimeError struct{ msg string }

func (e verifRuntimeError) Error() string { return "runtime error: " + e.msg }
func (e verifRuntimeError) RuntimeError() {}

// verifFmtError is the error type produced by the fmt.Errorf / errors.New stubs.
type verifFmtError struct{ msg string }

func (e *verifFmtError) Error() string { return e.msg }

// symWords returns n nondeterministic 64-bit words named <name>0..<name>n-1.
func symWords(name string, n int) []uint64 {
	buf := make([]uint64, 0, n)
	for i := 0; i < n; i++ {
		buf = append(buf, nondetU64(name+itoa(i)))
	}
	return buf
}

func itoa(i int) string {
	if i == 0 {
		return "0"
	}
	neg := i < 0
	if neg {
		i = -i
	}
	var b [20]byte
	p := len(b)
	for i > 0 {
		p--
		b[p] = byte('0' + i%10)
		i /= 10
	}
	if neg {
		p--
		b[p] = '-'
	}
	return string(b[p:])
}

// catch runs f and returns the value it panicked with (nil if it returned).
func catch(f func()) (p any) {
	defer func() { p = recover() }()
	f()
	return nil
}

// isInvalid reports whether a recovered panic value is rapid's "invalid data" signal.
func isInvalid(p any) bool {
	_, ok := p.(invalidData)
	return ok
}

// lenIn reports (as one symbolic condition, without forking) whether the bit length of x is
// one of the listed values.
func lenIn(x uint64, lens ...int) bool {
	ok := false
	for _, n := range lens {
		var c bool
		switch {
		case n == 0:
			c = x == 0
		case n == 64:
			c = x >= 1<<63
		default:
			c = bAnd(x >= uint64(1)<<uint(n-1), x < uint64(1)<<uint(n))
		}
		ok = bOr(ok, c)
	}
	return ok
}

// spanClass restricts the bit length of a span in the quick tier to a set of
// representative classes (all 65 in the thorough tier). The classes include every
// length at which genUintNBiased changes behaviour (0,1, 8/9: m leaves its floor,
// 55..64: overflow thresholds).
func spanClass(span uint64) {
	if thorough() {
		return
	}
	assume(lenIn(span, 0, 1, 2, 8, 9, 17, 32, 33, 55, 56, 57, 59, 60, 61, 63, 64))
}

func streamLen(name string, quick, deep int) int {
	if thorough() {
		return choose(name, deep+1)
	}
	return choose(name, quick+1)
}

func b2u(b bool) uint64 {
	if b {
		return 1
	}
	return 0
}

// seedOfCase is the seed findBug uses for test case number iter (0-based), computed the way
// findBug does (seed += iter per iteration).
func seedOfCase(base uint64, iter int) uint64 {
	e := base
	for j := 0; j <= iter; j++ {
		e += uint64(j)
	}
	return e
}

func symSlice(name string, maxLen int) []uint64 {
	n := choose(name+".len", maxLen+1)
	return symWords(name, n)
}
