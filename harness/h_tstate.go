package rapid

// L-TSTATE (C02, C10, C11): one checkOnce from a fresh T, any program.


var alphaMain = []uint8{opReturn, opDrawBool, opErrorf, opErrorEmpty, opPanicNil, opFail, opFatalA, opFailNow, opPanicStr, opPanicErr, opNilDeref, opSkip, opCleanup, opCtx, opCustom}
var alphaSub = []uint8{opReturn, opDrawBool, opErrorf, opErrorEmpty, opFatalB, opPanicStr, opSkip, opCtx, opCleanup}

const (
	modeC02 = iota
	modeC10
	modeC11
)

// tstate runs one checkOnce on a fresh T with a symbolic program and asserts the
// obligations of the given property.
func tstate(mode int) {
	k := 3
	if thorough() {
		k = 4
	}
	p := newVProg("p", k, 2, alphaMain, alphaSub)
	tb := newVTB("T")
	t := newT(tb, newBufBitStream(symWords("w", 4), false), false, nil)
	vassert(freshT(t), "newT does not give a fresh T")
	err := checkOnce(t, p.prop)
	inv := p.last()
	failure := err != nil && !err.isInvalidData()
	switch {
	case inv.signals > 0:
		reach("signalled")
	case inv.skipped:
		reach("skipped")
	case err != nil:
		reach("overrun")
	default:
		reach("passed")
	}
	switch mode {
	case modeC02:
		if inv.signals > 0 {
			if inv.panicNil > 0 && inv.signals == inv.panicNil {
				vassert(failure, "C02: panic(nil) in user code was not treated as a failure")
			} else if inv.rawPanics > 0 && inv.cleanupInvalid > 0 {
				// Go semantics: a panic raised by a deferred call supersedes the one in flight
				vassert(failure, "C02: a panic in user code was superseded by invalid data (skip/overrun) raised in a cleanup callback and the failure was lost")
			} else {
				vassert(failure, "C02: a failure signal was raised in the invocation but checkOnce did not report a failure")
			}
		} else {
			vassert(!failure, "C02: an invocation that only skipped / ran out of data is reported as failed")
		}
	case modeC11:
		if err == nil || err.isInvalidData() {
			// the T is reused for the next test case exactly in these two cases
			vassert(freshT(t), "C11: T is reused for the next test case but is not clean (failure flag carried over)")
		}
		if inv.signals == 0 {
			vassert(!failure, "C11: an invocation in which nothing failed is reported as failing")
			if !inv.skipped && err != nil {
				vassert(err.isInvalidData(), "C11: an invocation in which nothing failed is reported as failing")
			}
		}
	case modeC10:
		vassert(len(t.cleanups) == 0 && t.ctx == nil && t.cancelCtx == nil && !t.cleaning.Load(), "C10: cleanups or context left behind after checkOnce")
		vassert(inv.allCleanupsDone(), "C10: not every registered cleanup ran before checkOnce returned")
		// LIFO: ids run in decreasing order, except that cleanups registered during cleanup run next
		for i := 0; i < len(inv.ctxLive); i++ {
			vassert(inv.ctxLive[i], "C10: Context() is not live during the invocation")
		}
		vassert(inv.ctxSame, "C10: Context() returned different contexts within one invocation")
		for i := 0; i < len(inv.ctxInCleanupCancelled); i++ {
			vassert(inv.ctxInCleanupCancelled[i], "C10: context seen by a callback after the body ended is not cancelled")
		}
	}
}

func H_C02_checkOnce() { tstate(modeC02) }
func H_C10_checkOnce() { tstate(modeC10) }
func H_C11_checkOnce() { tstate(modeC11) }
