package rapid

// L-TSTATE (C02, C10, C11): one checkOnce from a fresh T, any program.

var alphaMain = []uint8{opReturn, opDrawBool, opErrorf, opErrorEmpty, opPanicNil, opFail, opFatalA, opFailNow, opPanicStr, opPanicErr, opNilDeref, opSkip, opCleanup, opCtx, opCustom}
var alphaMainDeep = []uint8{opReturn, opDrawBool, opErrorf, opErrorEmpty, opPanicNil, opFatalA, opPanicStr, opNilDeref, opSkip, opCleanup, opCtx, opCustom}
var alphaSub = []uint8{opReturn, opDrawBool, opErrorf, opErrorEmpty, opFatalB, opPanicStr, opSkip, opCtx, opCleanup}

const (
	modeC02 = iota
	modeC10
	modeC11
)

// tstate runs one checkOnce on a fresh T with a symbolic program and asserts the
// obligations of the given property.
func tstate(mode int) {
	k := 3
	alpha := alphaMain
	if thorough() {
		// 4 opcodes over a reduced alphabet (near-duplicates dropped: Fail ~ Errorf, FailNow ~ Fatalf,
		// panic(error) ~ panic(string)), so that the deeper bound still completes
		k = 4
		alpha = alphaMainDeep
	}
	p := newVProg("p", k, 2, alpha, alphaSub)
	tb := newVTB("T")
	t := newT(tb, newBufBitStream(symWords("w", 4), false), false, nil)
	vassert(freshT(t), "newT does not give a fresh T")
	err := checkOnce(t, p.prop)
	inv := p.last()
	failure := err != nil && !err.isInvalidData()
	switch {
	case inv.signals > 0:
		reach("signalled")
	case inv.skipped:
		reach("skipped")
	case err != nil:
		reach("overrun")
	default:
		reach("passed")
	}
	switch mode {
	case modeC02:
		if inv.signals > 0 {
			if inv.panicNil > 0 && inv.signals == inv.panicNil {
				vassert(failure, "C02: panic(nil) in user code was not treated as a failure")
			} else if inv.customSignals > 0 && inv.rawPanics == 0 && inv.cleanupInvalid > 0 {
				// same mechanism, other source of the panic in flight: a failure signalled on the inner T
				// of a Custom generator travels to the test case as a panic
				vassert(failure, "C02: a failure signalled inside a Custom generator function was superseded by invalid data (skip/overrun) raised in a cleanup callback and the failure was lost")
			} else if inv.rawPanics > 0 && inv.cleanupInvalid > 0 {
				// Go semantics: a panic raised by a deferred call supersedes the one in flight
				vassert(failure, "C02: a panic in user code was superseded by invalid data (skip/overrun) raised in a cleanup callback and the failure was lost")
			} else {
				vassert(failure, "C02: a failure signal was raised in the invocation but checkOnce did not report a failure")
			}
		} else {
			vassert(!failure, "C02: an invocation that only skipped / ran out of data is reported as failed")
		}
	case modeC11:
		if err == nil || err.isInvalidData() {
			// the T is reused for the next test case exactly in these two cases
			vassert(freshT(t), "C11: T is reused for the next test case but is not clean (failure flag carried over)")
		}
		if inv.signals == 0 {
			vassert(!failure, "C11: an invocation in which nothing failed is reported as failing")
			if !inv.skipped && err != nil {
				vassert(err.isInvalidData(), "C11: an invocation in which nothing failed is reported as failing")
			}
		}
	case modeC10:
		vassert(len(t.cleanups) == 0 && t.ctx == nil && t.cancelCtx == nil && !t.cleaning.Load(), "C10: cleanups or context left behind after checkOnce")
		vassert(inv.allCleanupsDone(), "C10: not every registered cleanup ran before checkOnce returned")
		// LIFO: ids run in decreasing order, except that cleanups registered during cleanup run next
		for i := 0; i < len(inv.ctxLive); i++ {
			vassert(inv.ctxLive[i], "C10: Context() is not live during the invocation")
		}
		vassert(inv.ctxSame, "C10: Context() returned different contexts within one invocation")
		vassert(!inv.customLeak, "C10: a Custom generator function was called again before the cleanups of its previous call had run")
		vassert(!inv.customCtxBad, "C10: a Custom generator function call got the context of an earlier call, or that context was still live")
		if inv.customCalls > 1 {
			reach("custom-retried")
		}
		for i := 0; i < len(inv.ctxInCleanupCancelled); i++ {
			vassert(inv.ctxInCleanupCancelled[i], "C10: context seen by a callback after the body ended is not cancelled")
		}
	}
}

func H_C02_checkOnce() { tstate(modeC02) }
func H_C10_checkOnce() { tstate(modeC10) }
func H_C11_checkOnce() { tstate(modeC11) }

// H_C11_twoCases: a second, benign test case after an arbitrary first one - on the same T when
// the first one passed or was invalid (findBug reuses it), on a fresh T otherwise (reproduction,
// minimisation, later Checks in the process). The second case uses every per-test-case facility
// (draws, a Custom generator, the context, a cleanup) and signals nothing: it must pass, whatever
// the first case did - also through state that does not live on the T (pools, package variables).
func H_C11_twoCases() {
	p := newVProg("p", 2, 2, alphaMain, alphaSub)
	tb := newVTB("T")
	t := newT(tb, newBufBitStream(symWords("w", 4), false), false, nil)
	err1 := checkOnce(t, p.prop)
	if err1 != nil && !err1.isInvalidData() {
		t = newT(tb, nil, false, nil)
		reach("first-failed")
	} else {
		reach("first-reusable")
	}
	t.s = newBufBitStream([]uint64{1, 0, 1, 0, 1, 0, 1, 0}, false)
	cleaned, live := 0, false
	err2 := checkOnce(t, func(t *T) {
		_ = Bool().Draw(t, "b")
		_ = Custom(func(ct *T) int {
			ct.Cleanup(func() { cleaned++ })
			if Bool().Draw(ct, "cb") {
				return 1
			}
			return 0
		}).Draw(t, "c")
		live = t.Context().Err() == nil
		t.Cleanup(func() { cleaned++ })
	})
	vassert(err2 == nil, "C11: a test case in which nothing failed is reported as failing or invalid after an earlier test case")
	vassert(live, "C10: Context() is not live during the invocation")
	vassert(cleaned == 2, "C10: not every registered cleanup ran before checkOnce returned")
}
