package rapid

// C14: T's non-drawing methods called from several goroutines started by the property.
//
// Under gosym the `go` statements below create goroutines of the executor's concurrent mode:
// the interleaving of their synchronisation operations is a decision variable of the path, a
// happens-before monitor watches every load and store of the real T code, and the functional
// assertions are checked on every explored interleaving. Natively the same function runs on
// real goroutines (for replay under the race detector).

import (
	"context"
	"io"
	"log"
	"sync"
)

// operations a goroutine may perform on the shared *T
const (
	cHelperName = iota
	cLogf
	cErrorf
	cFail
	cFailed
	cContext
	cCleanup
	cLog
	cError
	cOpCount
)

type concLog struct {
	signalled  int
	ctxs       []context.Context
	ctxLive    []bool
	cleanReg   int
	cleanRun   []int
	failedSeen []bool // Failed() results observed after this goroutine itself signalled a failure
}

func (l *concLog) do(t *T, op uint8, id int, joined bool) {
	switch op {
	case cHelperName:
		t.Helper()
		_ = t.Name()
	case cLogf:
		t.Logf("goroutine %d", id)
	case cLog:
		t.Log("goroutine", id)
	case cErrorf:
		hLock()
		l.signalled++
		hUnlock()
		t.Errorf("failure from goroutine %d", id)
		if joined {
			f := t.Failed()
			hLock()
			l.failedSeen = append(l.failedSeen, f)
			hUnlock()
		}
	case cError:
		hLock()
		l.signalled++
		hUnlock()
		t.Error("failure from goroutine", id)
	case cFail:
		hLock()
		l.signalled++
		hUnlock()
		t.Fail()
		if joined {
			f := t.Failed()
			hLock()
			l.failedSeen = append(l.failedSeen, f)
			hUnlock()
		}
	case cFailed:
		_ = t.Failed()
	case cContext:
		ctx := t.Context()
		live := ctx.Err() == nil
		hLock()
		l.ctxs = append(l.ctxs, ctx)
		l.ctxLive = append(l.ctxLive, live)
		hUnlock()
	case cCleanup:
		hLock()
		cid := l.cleanReg
		l.cleanReg++
		hUnlock()
		t.Cleanup(func() {
			hLock()
			l.cleanRun = append(l.cleanRun, cid)
			hUnlock()
		})
	}
}

// concScenario: one property invocation whose body starts len(progs) goroutines, each running
// its opcode program on the shared T. joined: the body waits for them (all assertions apply);
// otherwise the wait happens inside a cleanup callback, so that the goroutines overlap the end
// of the invocation (failOnError, context cancellation, the cleanup loop) - then only data-race
// freedom and the absence of crashes/deadlocks are claimed.
func concScenario(progs [][]uint8, logMode int, joined bool, mainOp uint8) {
	var raw *log.Logger
	if logMode == 2 {
		raw = log.New(io.Discard, "", 0)
	}
	t := newT(cTB{}, newBufBitStream(nil, false), logMode == 1, raw)
	l := &concLog{}
	err := checkOnce(t, func(t *T) {
		var wg sync.WaitGroup
		barrierReset()
		if !joined {
			t.Cleanup(func() { wg.Wait() })
		}
		for gi := range progs {
			wg.Add(1)
			go func(gi int) {
				defer wg.Done()
				barrierWait()
				for _, op := range progs[gi] {
					l.do(t, op, gi+1, joined)
				}
			}(gi)
		}
		barrierOpen()
		if mainOp != cOpCount {
			l.do(t, mainOp, 0, joined)
		}
		if joined {
			wg.Wait()
		}
	})
	hLock()
	defer hUnlock()
	if joined {
		reach("joined")
		if l.signalled > 0 {
			reach("signalled")
			vassert(err != nil && !err.isInvalidData(), "C14: a failure signalled from a goroutine did not falsify the test case")
		} else {
			vassert(err == nil, "C14: no goroutine signalled a failure but the test case was falsified")
		}
		for _, f := range l.failedSeen {
			vassert(f, "C14: Failed() returned false right after the same goroutine signalled a failure (lost update)")
		}
		vassert(len(l.cleanRun) == l.cleanReg, "C14: a cleanup registered from a goroutine did not run exactly once")
		seen := map[int]bool{}
		for _, id := range l.cleanRun {
			vassert(!seen[id], "C14: a cleanup registered from a goroutine ran twice")
			seen[id] = true
		}
		for i := range l.ctxs {
			vassert(l.ctxs[i] == l.ctxs[0], "C14: two goroutines observed different contexts within one invocation")
			vassert(l.ctxLive[i], "C14: Context() was not live while the property body was running")
		}
		if len(l.ctxs) > 0 {
			reach("context")
			vassert(l.ctxs[0].Err() != nil, "C14: the context is still live after the invocation ended")
		}
		vassert(freshT(t) || (err != nil && !err.isInvalidData()), "C14: state left on a T that will be reused")
	} else {
		reach("overlapping-end")
	}
}

var c14Alphabet = []uint8{cHelperName, cLogf, cErrorf, cFail, cFailed, cContext, cCleanup}

// H_C14_pairs: two goroutines started by the property, one call each (unordered pair of
// operations: the goroutines are symmetric), joined by the body or only by a cleanup.
func H_C14_pairs() {
	p := 2
	if thorough() {
		p = 3
	}
	concurrent(p)
	progs := concProgs("g", 2, 1, c14Alphabet)
	assume(progs[0][0] <= progs[1][0])
	logMode := choose("logmode", 3)
	joined := nondetBool("joined")
	for r := concRounds(); r > 0; r-- {
		concScenario(progs, logMode, joined, cOpCount)
	}
}

// H_C14_withBody: one goroutine (two calls) running concurrently with a call made by the
// property's own goroutine.
func H_C14_withBody() {
	concurrent(2)
	progs := concProgs("g", 1, 2, c14Alphabet)
	mainOp := nondetU8("main")
	assume(inAlphabet(mainOp, c14Alphabet))
	logMode := choose("logmode", 2)
	joined := nondetBool("joined")
	for r := concRounds(); r > 0; r-- {
		concScenario(progs, logMode, joined, mainOp)
	}
}

// H_C14_sequences: 2 goroutines with two calls each.
func H_C14_sequences() {
	p := 1
	alphabet := []uint8{cErrorf, cFailed, cContext, cCleanup}
	if thorough() {
		p = 2
		alphabet = c14Alphabet
	}
	concurrent(p)
	progs := concProgs("g", 2, 2, alphabet)
	assume(progs[0][0] <= progs[1][0])
	for r := concRounds(); r > 0; r-- {
		concScenario(progs, 0, true, cOpCount)
	}
}

// H_C14_three: three goroutines with one call each.
func H_C14_three() {
	concurrent(2)
	progs := concProgs("g", 3, 1, c14Alphabet)
	assume(progs[0][0] <= progs[1][0])
	assume(progs[1][0] <= progs[2][0])
	joined := nondetBool("joined")
	for r := concRounds(); r > 0; r-- {
		concScenario(progs, 0, joined, cOpCount)
	}
}

// H_C02_lateGoroutine: a goroutine started by test case 1 on the *T it was given signals a
// non-fatal failure later - at any point up to the middle of test case 2, whose body waits for
// it. Whatever the interleaving, the signal was raised on a *T that rapid handed to user code
// while Check was still running test cases that observe it: Check must not pass.
func H_C02_lateGoroutine() {
	concurrent(2)
	for r := concRounds(); r > 0; r-- {
		var wg sync.WaitGroup
		calls := 0
		barrierReset()
		prop := func(t *T) {
			calls++
			switch calls {
			case 1:
				wg.Add(1)
				go func() {
					defer wg.Done()
					barrierWait() // natively: not before test case 2 is under way
					t.Errorf("reported by a goroutine that outlived its test case")
				}()
			case 2:
				barrierOpen()
				wg.Wait()
			}
		}
		valid, _, _, _, err := findBug(newVTB("G"), farDeadline(), 2, 12345, prop)
		vassert(err != nil && !err.isInvalidData(), "C02: a non-fatal failure signalled from another goroutine on a *T handed out by rapid was lost: Check passed")
		if err != nil && valid == 1 {
			reach("signal-seen-by-the-next-test-case")
		}
		if err != nil && valid == 0 {
			reach("signal-seen-by-its-own-test-case")
		}
	}
}
