package rapid

// Harnesses anchored directly on saveFailFile / loadFailFile (C06 round trip, C16 crash points).

import (
	"path/filepath"
	"strings"
)

// H_C06_roundtrip: what saveFailFile writes, loadFailFile reads back exactly.
func H_C06_roundtrip() {
	vfsReset()
	seed := nondetU64("seed")
	buf := symSlice("buf", 2)
	output := symOutput()
	name := "TestFoo"
	_, filename := failFileName(name)
	dir := scratchDir()
	defer scratchDone(dir)
	filename = filepath.Join(dir, filename)
	err := saveFailFile(filename, rapidVersion, output, seed, buf)
	vassert(err == nil, "C06: saveFailFile failed on a healthy file system")
	version, seed2, buf2, err2 := loadFailFile(filename)
	vassert(err2 == nil, "C06: a fail file that was just saved cannot be loaded (persisted failure would be ignored)")
	if err2 != nil {
		return
	}
	reach("loaded")
	vassert(version == rapidVersion, "C06: version does not round-trip through the fail file")
	vassert(seed2 == seed, "C06: seed does not round-trip through the fail file")
	vassert(len(buf2) == len(buf), "C06: bitstream length does not round-trip through the fail file")
	for i := 0; i < len(buf) && i < len(buf2); i++ {
		vassert(buf2[i] == buf[i], "C06: bitstream does not round-trip through the fail file")
	}
	// the file is found by the discovery pattern of the same test name
	ok, _ := filepath.Match(filepath.Join(dir, failFilePattern(name)), filename)
	vassert(ok, "C06: the fail file name does not match the discovery pattern of its test")
}

// H_C06_roundtripLong: a long counterexample (600 words, about 11 KB of data lines: several refills
// of the scanner's buffer), the first, a middle and the last word symbolic.
func H_C06_roundtripLong() {
	vfsReset()
	seed := nondetU64("seed")
	n := 600
	buf := make([]uint64, n)
	for i := range buf {
		buf[i] = uint64(i+1) * 0x9E3779B97F4A7C15 >> uint(i%61)
	}
	buf[0], buf[n/2], buf[n-1] = nondetU64("first"), nondetU64("middle"), nondetU64("last")
	output := []byte("some output\n")
	if choose("bigOutput", 2) == 1 {
		output = []byte(strings.Repeat("a line of captured output\n", 300))
	}
	name := "TestLong"
	_, filename := failFileName(name)
	dir := scratchDir()
	defer scratchDone(dir)
	filename = filepath.Join(dir, filename)
	err := saveFailFile(filename, rapidVersion, output, seed, buf)
	vassert(err == nil, "C06: saveFailFile failed on a healthy file system")
	version, seed2, buf2, err2 := loadFailFile(filename)
	vassert(err2 == nil, "C06: a fail file that was just saved cannot be loaded (persisted failure would be ignored)")
	if err2 != nil {
		return
	}
	reach("loaded")
	vassert(version == rapidVersion, "C06: version does not round-trip through the fail file")
	vassert(seed2 == seed, "C06: seed does not round-trip through the fail file")
	vassert(len(buf2) == len(buf), "C06: bitstream length does not round-trip through the fail file")
	for i := 0; i < len(buf) && i < len(buf2); i++ {
		vassert(buf2[i] == buf[i], "C06: bitstream does not round-trip through the fail file")
	}
}

// H_C16_crash: killing the process at any file-system step of saveFailFile leaves only complete
// fail files under discoverable names.
func H_C16_crash() {
	seed := nondetU64("seed")
	buf := symSlice("buf", 2)
	var lines []string
	nlines := choose("nlines", 3)
	for i := 0; i < nlines; i++ {
		lines = append(lines, []string{"", "log line", "# x", "0x1"}[choose("line"+itoa(i), 4)])
	}
	output := []byte(strings.Join(lines, "\n"))
	name := failTestName()
	dirName, filename := failFileName(name)
	preexisting := choose("dirExists", 2) == 1

	setup := func() {
		vfsReset()
		if preexisting {
			_ = vfsMkdirAll(dirName, 0775)
			vfs.step = 0
		}
	}
	// reference: the uninterrupted save
	setup()
	err := saveFailFile(filename, rapidVersion, output, seed, buf)
	vassert(err == nil, "C16: saveFailFile failed on a healthy file system")
	ref, ok := vfs.files[filename]
	vassert(ok && len(vfs.files) == 1, "C16: an uninterrupted save must leave exactly the fail file")
	K := vfs.step

	// the same save, killed in front of step c (or in the middle of a write)
	setup()
	vfs.crashAt = choose("crashAt", K)
	vfs.partial = choose("partial", 4)
	crashed := runUntilCrash(func() { _ = saveFailFile(filename, rapidVersion, output, seed, buf) })
	vassert(crashed, "C16: the crash point was not reached")
	reach("crashed")
	for _, p := range vfs.paths() {
		content := vfs.files[p]
		discoverable, _ := filepath.Match(failFilePattern(name), p)
		if discoverable || p == filename {
			reach("final-name-visible")
			vassert(content == ref, "C16: a file a later run would pick up is incomplete or differs from the uninterrupted save")
		} else {
			reach("temp-visible")
			vassert(strings.HasPrefix(filepath.Base(p), "."), "C16: partial data is visible under a name that is not a hidden temporary name")
			vassert(filepath.Dir(p) == filepath.Dir(filename), "C16: the temporary file is not in the directory of the fail file (rename would not be atomic)")
			for _, other := range testNames {
				m, _ := filepath.Match(failFilePattern(other), p)
				vassert(!m, "C16: a temporary file matches the fail file discovery pattern of some test")
			}
		}
	}

	// history: a later, uninterrupted save of another (shorter) failure of the same test into the
	// directory the killed save left behind must produce exactly what it produces in a clean one
	seedB := nondetU64("seedB")
	bufB := symSlice("bufB", 1)
	outB := []byte("b")
	filenameB := strings.TrimSuffix(filename, ".fail") + "b.fail"
	left := map[string]string{}
	for _, p := range vfs.paths() {
		left[p] = vfs.files[p]
	}
	vfsReset()
	_ = vfsMkdirAll(dirName, 0775)
	errB := saveFailFile(filenameB, rapidVersion, outB, seedB, bufB)
	refB := vfs.files[filenameB]
	vassert(errB == nil && refB != "", "C16: reference save of the second failure failed")
	vfsReset()
	_ = vfsMkdirAll(dirName, 0775)
	for p, c := range left {
		vfs.files[p] = c
	}
	errB = saveFailFile(filenameB, rapidVersion, outB, seedB, bufB)
	vassert(errB == nil, "C16: a save after a killed save fails")
	for _, p := range vfs.paths() {
		if discoverable, _ := filepath.Match(failFilePattern(name), p); discoverable {
			want := ref
			if p == filenameB {
				want = refB
			}
			vassert(vfs.files[p] == want, "C16: after a killed save, a later save leaves a fail file that differs from an uninterrupted save (stale partial data)")
		}
	}
	reach("second-save")
}
