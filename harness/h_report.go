package rapid

import "strings"

// C01: what Check reports is real.

var alphaReport = []uint8{opReturn, opDrawBool, opErrorf, opFatalA, opFatalIfBit, opSkip, opPanicStr, opDrawFiltered}
var alphaReportDeep = []uint8{opReturn, opDrawBool, opErrorf, opFatalA, opFatalB, opFatalIfBit, opFatalVal, opIfBit, opSkip, opPanicStr, opDrawDistinct, opDrawFiltered}

func siteMessage(site int) string {
	switch site {
	case 1:
		return "fatal at site A"
	case 2:
		return "fatal at site B"
	case 3:
		return "fatal at site C"
	case 5:
		return "user panic"
	}
	return ""
}

// H_C01_checkTB: the real checkTB/doCheck/shrink on a deterministic symbolic program, with a
// symbolic clock (minimisation cut short anywhere) and symbolic PRNG words.
func H_C01_checkTB() {
	k := 3
	alpha := alphaReport
	flags.checks = 1
	if thorough() {
		k = 2
		symClock(true) // minimisation cut short at any point
		alpha = alphaReportDeep
		flags.checks = 1 + choose("checks", 2)
	}
	p := newVProg("p", k, 0, alpha, nil)
	p.maxInv = 2
	if thorough() {
		p.maxInv = 3
	}
	flags.nofailfile = true
	flags.seed = 0
	if choose("shrinktime", 2) == 0 {
		flags.shrinkTime = 0
	}
	tb := newVTB("R")
	runIsolated(func() { checkTB(tb, farDeadline(), p.prop) })

	anyFailed := false
	for _, inv := range p.invs {
		if inv.signals > 0 {
			anyFailed = true
		}
	}
	if len(tb.errorfs) == 0 {
		reach("not-failed")
		vassert(!anyFailed, "C02: a test case falsified the property but Check did not fail the test")
		return
	}
	msg := tb.errorfs[0]
	if strings.Contains(msg, "only generated") {
		reach("only-generated")
		vassert(!anyFailed, "C02: a test case falsified the property but Check did not report it")
		return
	}
	reach("reported")
	vassert(anyFailed, "C01: Check reports a falsification although no executed test case falsified the property")
	vassert(!strings.Contains(msg, "flaky test"), "C01: a deterministic property is called flaky")
	final := p.last()
	vassert(final.signals > 0, "C01: the final test case presented as the counterexample does not falsify the property")
	if final.failMsg != "" {
		vassert(strings.Contains(msg, final.failMsg), "C01: the failure named in the message is not the one the final test case fails with")
	}
	if m := siteMessage(final.fatalAt); m != "" {
		vassert(strings.Contains(msg, m), "C01: the failure named in the message is not the one the final test case fails with")
	}
	// the draws logged after 'Failed test output' are the draws of the final replay
	var logged []string
	for _, l := range tb.logs {
		if strings.HasPrefix(l, "[rapid] draw ") {
			logged = append(logged, l)
		}
	}
	vassert(len(logged) >= len(final.drawLog), "C01: the final replay logs fewer draws than it made")
	off := len(logged) - len(final.drawLog)
	for i := range final.drawLog {
		if off+i >= 0 && off+i < len(logged) {
			if !strings.HasSuffix(final.drawLog[i], "*") {
				vassert(logged[off+i] == final.drawLog[i], "C01: the logged draws are not the values the final test case received")
			}
		}
	}
}
