package rapid

import "unicode"

// L-PRUNE (C04, C01): a recording, pruned of its discarded groups, replays to the same values.

// pruneReplay runs draw on a recording stream over L symbolic words, prunes the recording and
// replays it through a fresh buffer stream; values and verdict must be identical.
func pruneReplay(L int, draw func(t *T) []uint64) {
	words := symWords("w", L)
	s1 := newBufBitStream(words, true)
	var v1 []uint64
	p1 := catch(func() { v1 = draw(newT(nil, s1, false, nil)) })
	if p1 != nil {
		vassert(isInvalid(p1), "C03: a generator panicked with something other than invalid data")
		// an invalid (rejected/overrun) run has no values to replay
		reach("invalid")
		return
	}
	reach("valid")
	rec := s1.recordedBits
	before := len(rec.data)
	rec.prune()
	if len(rec.data) < before {
		reach("pruned-something")
	}
	s2 := newBufBitStream(append([]uint64(nil), rec.data...), true)
	var v2 []uint64
	p2 := catch(func() { v2 = draw(newT(nil, s2, false, nil)) })
	vassert(p2 == nil, "C04: the pruned recording of a valid run does not replay (replay ends in invalid data / panic)")
	if p2 != nil {
		return
	}
	vassert(len(v1) == len(v2), "C04: replay of the pruned recording draws a different number of values")
	for i := 0; i < len(v1) && i < len(v2); i++ {
		vassert(v1[i] == v2[i], "C04: replay of the pruned recording draws different values")
	}
	vassert(len(s2.buf) == 0, "C04: replay of the pruned recording does not consume every recorded word")
	rec2 := s2.recordedBits
	rec2.prune()
	vassert(compareData(rec2.data, rec.data) == 0, "C04: re-recording the pruned replay gives a different bitstream")
}

func pruneL(quick, deep int) int {
	if thorough() {
		return deep
	}
	return quick
}

func H_C04_prune_distinct() {
	g := SliceOfDistinct(Bool(), ID[bool])
	pruneReplay(pruneL(10, 13), func(t *T) []uint64 {
		sl := g.value(t)
		out := []uint64{uint64(len(sl))}
		for _, b := range sl {
			out = append(out, b2u(b))
		}
		return out
	})
}

func H_C04_prune_map() {
	g := MapOf(Bool(), Bool())
	pruneReplay(pruneL(13, 16), func(t *T) []uint64 {
		m := g.value(t)
		out := []uint64{uint64(len(m))}
		if v, ok := m[false]; ok {
			out = append(out, 10+b2u(v))
		}
		if v, ok := m[true]; ok {
			out = append(out, 20+b2u(v))
		}
		return out
	})
}

func H_C04_prune_filter() {
	g := Bool().Filter(func(b bool) bool { return b })
	pruneReplay(pruneL(6, 7), func(t *T) []uint64 {
		a := g.value(t)
		b := g.value(t)
		return []uint64{b2u(a), b2u(b)}
	})
}

func H_C04_prune_perm() {
	g := Permutation([]int{10, 20, 30})
	pruneReplay(pruneL(8, 10), func(t *T) []uint64 {
		p := g.value(t)
		out := []uint64{uint64(len(p))}
		for _, x := range p {
			out = append(out, uint64(x))
		}
		return out
	})
}

// H_C04_prune_intReject: one bounded integer draw through the rejection loops of genUintNBiased /
// genUintNUnbiased (any range, any number of out-of-range samples that fits the stream), followed
// by a second draw that must stay aligned after pruning.
func H_C04_prune_intReject() {
	min, max := nondetU64("min"), nondetU64("max")
	assume(min <= max)
	spanClass(max - min)
	bias := nondetBool("bias")
	pruneReplay(pruneL(13, 20), func(t *T) []uint64 {
		a, _, _ := genUintRange(t.s, min, max, bias)
		b := t.s.drawBits(64)
		return []uint64{a, b}
	})
}

// H_C04_prune_runeDie: a rune drawn through loadedDie.roll and genIndex (rejection sampling with
// a miss rate of 3/8 for Rune()), twice.
func H_C04_prune_runeDie() {
	g := RuneFrom([]rune{'a', 'b', 'c', 'd', 'e'})
	pruneReplay(pruneL(12, 16), func(t *T) []uint64 {
		a := g.value(t)
		b := g.value(t)
		return []uint64{uint64(a), uint64(b)}
	})
}

// H_C04_prune_repeat: a state machine (T.Repeat) whose actions are symbolic programs that may
// draw, signal a non-fatal failure and skip: the recording of a whole test case, pruned of the
// rejected (skipped/invalid) action attempts, must replay to the same verdict and the same draws.
func H_C04_prune_repeat() {
	nact := 1 + choose("nact", 2)
	alphabet := []uint8{opReturn, opDrawBool, opErrorf, opSkip}
	if thorough() {
		alphabet = []uint8{opReturn, opDrawBool, opDrawFiltered, opErrorf, opSkip}
	}
	var progs [][]uint8
	for i := 0; i < nact; i++ {
		progs = append(progs, symOps("act"+itoa(i), 3, alphabet))
	}
	pruneRepeat(progs, pruneL(9, 10))
}

// H_C04_prune_repeatFilter: one action that starts with a rejection-based draw (which may give
// up after 5 rejected tries, ending the action as invalid before any draw succeeded), on a
// stream long enough for the retry that follows.
func H_C04_prune_repeatFilter() {
	progs := [][]uint8{append([]uint8{opDrawFiltered}, symOps("act0", 2, []uint8{opReturn, opDrawBool, opErrorf, opSkip})...)}
	pruneRepeat(progs, pruneL(14, 18))
}

func pruneRepeat(progs [][]uint8, L int) {
	flags.steps = 2
	run := func(s bitStream) (verdict int, msg string, draws []uint64) {
		actions := map[string]func(*T){}
		for i := range progs {
			ops := progs[i]
			actions[[]string{"A", "B"}[i]] = func(t *T) {
				for _, op := range ops {
					switch op {
					case opReturn:
						return
					case opDrawBool:
						draws = append(draws, b2u(Bool().Draw(t, "b")))
					case opDrawFiltered:
						// rejection-based draw: gives up (invalid data) after 5 rejected tries
						draws = append(draws, b2u(Bool().Filter(func(b bool) bool { return b }).Draw(t, "fb")))
					case opErrorf:
						t.Errorf("non-fatal failure in an action")
					case opSkip:
						t.Skip("n/a")
					}
				}
			}
		}
		err := checkOnce(newT(newVTB("SM"), s, false, nil), func(t *T) { t.Repeat(actions) })
		switch {
		case err == nil:
			return 0, "", draws
		case err.isInvalidData():
			return 1, "", draws
		}
		return 2, err.Error(), draws
	}
	s1 := newBufBitStream(symWords("w", L), true)
	v1, m1, d1 := run(s1)
	if v1 == 1 {
		reach("invalid")
		return // an invalid test case is not replayed
	}
	reach("valid")
	if v1 == 2 {
		reach("failed")
	}
	rec := s1.recordedBits
	before := len(rec.data)
	rec.prune()
	if len(rec.data) < before {
		reach("pruned-something")
	}
	s2 := newBufBitStream(append([]uint64(nil), rec.data...), true)
	v2, m2, _ := run(s2)
	vassert(v2 == v1 && m2 == m1, "C04: replaying the pruned recording of a state-machine test case gives a different verdict")
	if v2 != v1 {
		return
	}
	rec2 := s2.recordedBits
	rec2.prune()
	vassert(compareData(rec2.data, rec.data) == 0, "C04: re-recording the pruned replay of a state-machine test case gives a different bitstream")
	_ = d1
}

var alphaPruneMain = []uint8{opReturn, opDrawBool, opDrawFiltered, opErrorf, opFatalA, opPanicStr, opSkip, opCustom}
var alphaPruneSub = []uint8{opReturn, opDrawBool, opErrorf, opFatalB, opPanicStr, opSkip}

// H_C04_prune_program: a whole test case given by a symbolic program (draws, rejection-based
// draws, a Custom generator whose function runs a sub-program that may itself draw, fail or
// skip, failures of every kind) run through checkOnce on a recording stream: the pruned
// recording replays to the same verdict, the same failure and the same draws. Covers failures
// raised INSIDE a generator attempt (Custom function, Filter predicate), whose bits must survive
// pruning.
func H_C04_prune_program() {
	k := 2
	if thorough() {
		k = 3
	}
	p := newVProg("p", k, 2, alphaPruneMain, alphaPruneSub)
	run := func(s bitStream) (int, string, []uint64) {
		err := checkOnce(newT(newVTB("P"), s, false, nil), p.prop)
		inv := p.last()
		switch {
		case err == nil:
			return 0, "", inv.topDraws
		case err.isInvalidData():
			return 1, "", inv.topDraws
		}
		// verdict and failure message; the traceback of a failure that is attributed after the fact
		// (a non-fatal failure followed by an invalid-data end) names the place where the test case
		// ended, which legitimately differs between the recording and its pruned replay
		return 2, err.Error(), inv.topDraws
	}
	s1 := newBufBitStream(symWords("w", pruneL(8, 10)), true)
	v1, m1, d1 := run(s1)
	if v1 == 1 {
		reach("invalid")
		return
	}
	reach("valid")
	if v1 == 2 {
		reach("failed")
	}
	rec := s1.recordedBits
	before := len(rec.data)
	rec.prune()
	if len(rec.data) < before {
		reach("pruned-something")
	}
	s2 := newBufBitStream(append([]uint64(nil), rec.data...), true)
	v2, m2, d2 := run(s2)
	vassert(v2 == v1 && m2 == m1, "C04: replaying the pruned recording of a test case gives a different verdict or failure")
	if v2 != v1 {
		return
	}
	vassert(len(d1) == len(d2), "C04: replay of the pruned recording draws a different number of values")
	for i := 0; i < len(d1) && i < len(d2); i++ {
		vassert(d1[i] == d2[i], "C04: replay of the pruned recording draws different values")
	}
	rec2 := s2.recordedBits
	rec2.prune()
	vassert(compareData(rec2.data, rec.data) == 0, "C04: re-recording the pruned replay gives a different bitstream")
}

// H_C04_prune_nested: rejected attempts nested inside rejected attempts: a Filter whose element
// is a bounded integer with its own rejection loop (IntRange(0,4), 3 bits: 5..7 are out of range).
func H_C04_prune_nested() {
	g := IntRange(0, 4).Filter(func(x int) bool { return x != 2 })
	pruneReplay(pruneL(10, 13), func(t *T) []uint64 {
		a := g.value(t)
		b := t.s.drawBits(64)
		return []uint64{uint64(a), b}
	})
}

// H_C04_history_runeTable: what a generator draws does not depend on which generators were built
// earlier in the process: RuneFrom over a range table that also contains surrogate code points,
// built twice; both instances draw the same rune from equal bitstreams.
func H_C04_history_runeTable() {
	tab := &unicode.RangeTable{R16: []unicode.Range16{{Lo: 0xD7FC, Hi: 0xE003, Stride: 1}}}
	// die word, bias word of the index draw (how many bits the index gets), index bits
	bias := []uint64{0, 1 << 48, 1 << 50, 1 << 51, 3 << 50, 1 << 52, 7 << 50, 1<<53 - 1}[choose("bias", 8)]
	bits := []uint64{1, 5, 9, 11, 2051, 2055}[choose("bits", 6)]
	words := []uint64{0, bias, bits, 0, 0}
	draw := func() (rune, bool) {
		g := RuneFrom(nil, tab)
		var r rune
		p := catch(func() { r = g.value(newT(nil, newBufBitStream(append([]uint64(nil), words...), false), false, nil)) })
		return r, p == nil
	}
	r1, ok1 := draw()
	r2, ok2 := draw()
	r3, ok3 := draw()
	vassert(ok1 == ok2 && ok2 == ok3 && r1 == r2 && r2 == r3, "C04: the same generator expression draws different values from the same bitstream depending on how many generators were built before it")
	reach("compared")
}
