package rapid

// C13: MakeFuzz / checkFuzz on arbitrary bytes.

var alphaFuzz = []uint8{opReturn, opDrawBool, opDrawByte, opDrawWord, opDrawRune, opErrorf, opFatalA, opPanicStr, opSkip, opFatalIfBit}

func symBytes(name string, n int) []byte {
	b := make([]byte, 0, n)
	for i := 0; i < n; i++ {
		b = append(b, nondetU8(name+itoa(i)))
	}
	return b
}

// refWords is the reference decoding: little-endian 64-bit words, short tail zero-padded.
func refWords(input []byte) []uint64 {
	var words []uint64
	for i := 0; i < len(input); i += 8 {
		var w uint64
		for j := 0; j < 8 && i+j < len(input); j++ {
			w |= uint64(input[i+j]) << (8 * uint(j))
		}
		words = append(words, w)
	}
	return words
}

func fuzzLen() int {
	if thorough() {
		return choose("n", 26)
	}
	return choose("n", 18)
}

func H_C13_fuzz() {
	n := fuzzLen()
	// the input is a prefix of a larger array (spare capacity, as a fuzzing engine or a caller
	// slicing its own buffer would hand over): what lies behind it is not the fuzz target's to touch
	backing := append(symBytes("b", n), 0xA5, 0x5A, 0xC3, 0x3C, 0x96, 0x69, 0xF0, 0x0F)
	input := backing[:n]
	before := append([]byte(nil), backing...)
	k := 2
	if thorough() {
		k = 3
	}
	p := newVProg("p", k, 0, alphaFuzz, nil)
	tb := newVTB("F")
	fuzz := MakeFuzz(p.prop)
	_ = fuzz
	runIsolated(func() { checkFuzz(tb, p.prop, input) })
	inv := p.last()
	vassert(len(p.invs) == 1, "C13: the fuzz target must run the property exactly once")
	for i := range before {
		vassert(backing[i] == before[i], "C13: the fuzz target modified its input (or the caller's memory behind it)")
	}

	// faithfulness: the same program replayed directly on the reference words
	tb2 := newVTB("R")
	err := checkOnce(newT(tb2, newBufBitStream(refWords(input), false), false, nil), p.prop)
	ref := p.last()
	vassert(len(inv.draws) == len(ref.draws), "C13: fuzz run and replay of the decoded words draw a different number of values")
	for i := 0; i < len(inv.draws) && i < len(ref.draws); i++ {
		vassert(inv.draws[i] == ref.draws[i], "C13: fuzz run and replay of the decoded words draw different values")
	}

	// outcome map
	switch {
	case err == nil:
		reach("pass")
		vassert(len(tb.calls) == 0, "C13: a passing input must neither skip nor fail the fuzz test")
	case err.isInvalidData():
		reach("skip")
		vassert(len(tb.calls) == 1 && tb.calls[0] == "SkipNow", "C13: an exhausted/rejected input must skip the fuzz test (exactly SkipNow)")
	default:
		reach("fail")
		vassert(len(tb.calls) == 1 && tb.calls[0] == "Fatalf", "C13: a falsifying input must fail the fuzz test (exactly one Fatalf)")
	}
	vassert((inv.signals > 0) == (err != nil && !err.isInvalidData()), "C13: failure verdict does not match what the property signalled")
}

// H_C13_suffix: appending bytes the property does not consume never changes the outcome.
func H_C13_suffix() {
	n := choose("n", 12)
	m := 1 + choose("m", 9)
	x := symBytes("x", n)
	y := symBytes("y", m)
	p := newVProg("p", 2, 0, alphaFuzz, nil)

	// how many words does the test case consume?
	s := newBufBitStream(refWords(x), false)
	total := len(s.buf)
	_ = checkOnce(newT(newVTB("R"), s, false, nil), p.prop)
	consumed := total - len(s.buf)
	assume(8*consumed <= n) // every consumed word is made of bytes of x only

	tb1 := newVTB("F1")
	runIsolated(func() { checkFuzz(tb1, p.prop, x) })
	i1 := p.last()
	tb2 := newVTB("F2")
	xy := append(append([]byte(nil), x...), y...)
	runIsolated(func() { checkFuzz(tb2, p.prop, xy) })
	i2 := p.last()

	if i1.attempts == len(i1.draws) && (i1.signals > 0 || len(tb1.calls) == 0) {
		reach("decided")
		// x alone decided the outcome (pass or fail) within its own bytes
		vassert(len(tb1.calls) == len(tb2.calls), "C13: appending unconsumed bytes changed the outcome")
		for i := 0; i < len(tb1.calls) && i < len(tb2.calls); i++ {
			vassert(tb1.calls[i] == tb2.calls[i], "C13: appending unconsumed bytes changed the outcome")
		}
		vassert(len(i1.draws) == len(i2.draws), "C13: appending unconsumed bytes changed the draws")
		for i := 0; i < len(i1.draws) && i < len(i2.draws); i++ {
			vassert(i1.draws[i] == i2.draws[i], "C13: appending unconsumed bytes changed the draws")
		}
	}
}
