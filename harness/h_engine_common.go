package rapid

// Shared harness infrastructure for the engine-level properties: a recording TB
// and a property function that interprets a symbolic opcode program.

import (
	"context"
	"fmt"
	"runtime"
	"strings"
	"time"
)

// ---- recording TB ----

type vTB struct {
	name    string
	failed  bool
	errorfs []string
	fatalfs []string
	logs    []string
	skips   int
	failNow int
	calls   []string // sequence of verdict-relevant calls
}

func newVTB(name string) *vTB { return &vTB{name: name} }

func (tb *vTB) Helper()      {}
func (tb *vTB) Name() string { return tb.name }
func (tb *vTB) Logf(format string, args ...any) {
	tb.logs = append(tb.logs, fmt.Sprintf(format, args...))
}
func (tb *vTB) Log(args ...any) { tb.logs = append(tb.logs, fmt.Sprint(args...)) }
func (tb *vTB) Skipf(format string, args ...any) {
	tb.Logf(format, args...)
	tb.SkipNow()
}
func (tb *vTB) Skip(args ...any) {
	tb.Log(args...)
	tb.SkipNow()
}
func (tb *vTB) SkipNow() {
	tb.skips++
	tb.calls = append(tb.calls, "SkipNow")
	runtime.Goexit()
}
func (tb *vTB) Errorf(format string, args ...any) {
	tb.failed = true
	tb.errorfs = append(tb.errorfs, fmt.Sprintf(format, args...))
	tb.calls = append(tb.calls, "Errorf")
}
func (tb *vTB) Error(args ...any) {
	tb.failed = true
	tb.errorfs = append(tb.errorfs, fmt.Sprint(args...))
	tb.calls = append(tb.calls, "Errorf")
}
func (tb *vTB) Fatalf(format string, args ...any) {
	tb.failed = true
	tb.fatalfs = append(tb.fatalfs, fmt.Sprintf(format, args...))
	tb.calls = append(tb.calls, "Fatalf")
	runtime.Goexit()
}
func (tb *vTB) Fatal(args ...any) {
	tb.failed = true
	tb.fatalfs = append(tb.fatalfs, fmt.Sprint(args...))
	tb.calls = append(tb.calls, "Fatalf")
	runtime.Goexit()
}
func (tb *vTB) FailNow() {
	tb.failed = true
	tb.failNow++
	tb.calls = append(tb.calls, "FailNow")
	runtime.Goexit()
}
func (tb *vTB) Fail() {
	tb.failed = true
	tb.calls = append(tb.calls, "Fail")
}
func (tb *vTB) Failed() bool { return tb.failed }

func (tb *vTB) logsContain(sub string) bool {
	for _, l := range tb.logs {
		if strings.Contains(l, sub) {
			return true
		}
	}
	return false
}

// ---- symbolic property programs ----

const (
	opReturn       = iota // end the invocation normally
	opDrawBool            // Bool().Draw
	opDrawByte            // Uint8().Draw  (biased kernel)
	opErrorf              // t.Errorf  (non-fatal)
	opFail                // t.Fail    (non-fatal)
	opFatalA              // t.Fatalf at site A
	opFatalB              // t.Fatalf at site B
	opFailNow             // t.FailNow
	opPanicStr            // panic("...")
	opPanicErr            // panic(error value)
	opNilDeref            // run-time panic
	opSkip                // t.Skip
	opCleanup             // register a cleanup that runs the sub-program
	opCtx                 // sample t.Context()
	opCustom              // draw from Custom(fn) where fn runs the sub-program on its own T
	opDrawSmall           // IntRange(0,3).Draw
	opFatalIfBit          // Fatalf at site C iff the last drawn bool was true (data-dependent failure)
	opDrawWord            // read one raw 64-bit word from the bitstream
	opIfBit               // execute the next opcode only if the last drawn bool was true
	opNilDerefB           // run-time panic at a second site (same message as opNilDeref)
	opDeepA               // Fatalf reached through 20 frames of recursion, called from statement A
	opDrawDistinct        // SliceOfDistinct(Bool()).Draw (rejection-based)
	opDrawFiltered        // Bool().Filter(id).Draw (rejection-based)
	opDeepB               // the same helper called from statement B: the tracebacks differ only in the outermost frames
	opFatalVal            // Fatalf at site D whose MESSAGE depends on the last drawn bool (same traceback, two messages)
	opErrorEmpty          // t.Error() with no arguments: a non-fatal failure whose message is the empty string
	opPanicNil            // panic(nil)
	opDrawRune            // RuneFrom(3 runes of different encoded length).Draw: loaded die + index draw
	opHelperA             // Fatalf at the first of two sites inside ONE helper function that calls t.Helper()
	opHelperB             // Fatalf at the second site of the same helper (same caller line)
	opPanicVal            // panic whose VALUE (and so its message) depends on the last drawn bool, at one site
	opCleanupFailA        // register a cleanup function that fails (Fatalf) - site A
	opCleanupFailB        // register another cleanup function that fails (Fatalf) - site B: a different function
	opCount
)

// invocation ends
const (
	endReturn = iota
	endFatal
	endPanic
	endSkip
	endRuntime
)

type vInv struct {
	draws                 []uint64 // values received, in order
	topDraws              []uint64 // ... by the property body itself (not inside callbacks)
	drawLog               []string // what the draw log lines of this invocation should say
	attempts              int      // draws started (a draw cut short by invalid data is started but not received)
	signals               int      // failure signals raised during this invocation (incl. its cleanups and custom fns)
	nonFatal              int
	fatalAt               int    // site id of the fatal failure, 0 if none
	failMsg               string // message of a value-dependent failure (opFatalVal)
	skipped               bool   // ended by skip
	ended                 bool   // body finished (any way)
	cleanReg              int    // cleanups registered
	cleanRun              []int  // ids of cleanups run, in order
	cleanIds              []int  // ids registered, in order
	ctxLive               []bool // ctx.Err()==nil at each sample in the body
	ctxSame               bool   // all samples are the same object
	ctxInCleanupCancelled []bool
	overlap               bool // another invocation began before this one's cleanups finished
	rawPanics             int  // panic(x) / run-time panics raised by user code (not through T)
	panicNil              int  // panic(nil) raised by user code
	cbReg                 int  // cleanups registered inside Custom generator functions
	cbRun                 int  // ... of which have run
	customCalls           int  // invocations of a Custom generator function (every try counts)
	customSignals         int  // failure signals raised inside Custom generator functions (they reach the test case as a panic)
	customLeak            bool // a Custom function was entered while cleanups of an earlier call were still pending
	customCtxBad          bool // a Custom call saw the context of an earlier call, or that context was still live
	cleanupSkips          int  // t.Skip called from inside a cleanup callback
	cleanupInvalid        int  // cleanup callbacks that ended by raising invalid data (skip, overrun, ...)
}

type vProg struct {
	ops         []uint8 // main program
	sub         []uint8 // sub-program for cleanup / custom callbacks
	sub2        []uint8 // program of a cleanup registered from inside a callback
	invs        []*vInv
	cur         *vInv
	nextCleanup int
	firstCtx    any
	maxInv      int // bound on the number of fresh (generation-phase) test cases explored (0 = none)
	fresh       int
}

// newVProg makes a program of k symbolic opcodes (plus ksub for callbacks) restricted to alphabet.
func newVProg(name string, k, ksub int, alphabet []uint8, subAlphabet []uint8) *vProg {
	p := &vProg{}
	for i := 0; i < k; i++ {
		op := nondetU8(name + ".op" + itoa(i))
		assume(inAlphabet(op, alphabet))
		p.ops = append(p.ops, op)
	}
	for i := 0; i < ksub; i++ {
		op := nondetU8(name + ".sub" + itoa(i))
		assume(inAlphabet(op, subAlphabet))
		p.sub = append(p.sub, op)
	}
	if ksub > 0 {
		op := nondetU8(name + ".nested0")
		assume(inAlphabet(op, []uint8{opReturn, opErrorf, opFatalB, opSkip}))
		p.sub2 = append(p.sub2, op)
	}
	return p
}

func inAlphabet(op uint8, alphabet []uint8) bool {
	ok := false
	for _, a := range alphabet {
		ok = bOr(ok, op == a)
	}
	return ok
}

func (p *vProg) last() *vInv { return p.invs[len(p.invs)-1] }

// prop is the property function handed to rapid.
func (p *vProg) prop(t *T) {
	if p.cur != nil && !p.cur.allCleanupsDone() {
		p.cur.overlap = true
	}
	if rs, ok := t.s.(*randomBitStream); ok && !rs.persist {
		// generation phase (findBug): bound the number of fresh test cases explored
		p.fresh++
		if p.maxInv > 0 && p.fresh > p.maxInv {
			assume(false) // stated bound: longer generation histories are not explored
		}
	}
	inv := &vInv{ctxSame: true}
	p.invs = append(p.invs, inv)
	p.cur = inv
	p.firstCtx = nil
	defer func() { inv.ended = true }()
	p.exec(t, p.ops, inv, false)
}

// addDraw records a value the invocation received; draws made by the property body itself (not
// inside a callback, where a rejected attempt may be retried and later pruned) are kept separately.
func (inv *vInv) addDraw(v uint64, inCallback bool) {
	inv.draws = append(inv.draws, v)
	if !inCallback {
		inv.topDraws = append(inv.topDraws, v)
	}
}

func (inv *vInv) allCleanupsDone() bool { return len(inv.cleanRun) == len(inv.cleanIds) }

func (p *vProg) exec(t *T, ops []uint8, inv *vInv, inCallback bool) {
	p.execCB(t, ops, inv, inCallback, false)
}

func (p *vProg) execCB(t *T, ops []uint8, inv *vInv, inCallback bool, inCleanup bool) {
	lastBit := false
	skipNext := false
	for _, op := range ops {
		if skipNext {
			skipNext = false
			continue
		}
		switch op {
		case opIfBit:
			skipNext = !lastBit
		case opReturn:
			return
		case opDrawBool:
			inv.attempts++
			b := Bool().Draw(t, "b")
			lastBit = b
			if b {
				inv.addDraw(1, inCallback)
				inv.drawLog = append(inv.drawLog, "[rapid] draw b: true")
			} else {
				inv.addDraw(0, inCallback)
				inv.drawLog = append(inv.drawLog, "[rapid] draw b: false")
			}
		case opDrawByte:
			inv.attempts++
			v := Uint8().Draw(t, "u8")
			inv.addDraw(uint64(v), inCallback)
		case opDrawDistinct:
			inv.attempts++
			sl := SliceOfDistinct(Bool(), ID[bool]).Draw(t, "ds")
			v := uint64(len(sl)) * 4
			for i, b := range sl {
				if b {
					v |= 1 << uint(i)
				}
			}
			lastBit = len(sl) > 0 && sl[0]
			inv.addDraw(v, inCallback)
			inv.drawLog = append(inv.drawLog, "[rapid] draw ds: "+boolSliceGoString(sl))
			if symbolic() {
				// the executor's fmt model does not render %#v of slices the way package fmt does
				inv.drawLog[len(inv.drawLog)-1] = "[rapid] draw ds: " + "*"
			}
		case opDrawFiltered:
			inv.attempts++
			b := Bool().Filter(func(b bool) bool { return b }).Draw(t, "fb")
			lastBit = b
			inv.addDraw(b2u(b), inCallback)
			inv.drawLog = append(inv.drawLog, "[rapid] draw fb: true")
		case opDrawWord:
			inv.attempts++
			w := t.s.drawBits(64)
			inv.addDraw(w, inCallback)
		case opDrawSmall:
			inv.attempts++
			v := IntRange(0, 3).Draw(t, "small")
			inv.addDraw(uint64(v), inCallback)
		case opErrorf:
			inv.signals++
			inv.nonFatal++
			t.Errorf("non-fatal failure")
		case opDrawRune:
			inv.attempts++
			r := RuneFrom([]rune{'a', 'é', '日'}).Draw(t, "r")
			inv.addDraw(uint64(r), inCallback)
		case opHelperA, opHelperB:
			inv.signals++
			inv.fatalAt = 13 + int(op-opHelperA)
			helperFail(t, op == opHelperB)
		case opPanicVal:
			inv.signals++
			inv.rawPanics++
			inv.fatalAt = 15
			if lastBit {
				inv.failMsg = "index out of range [1] with length 1"
			} else {
				inv.failMsg = "index out of range [0] with length 0"
			}
			panic(inv.failMsg)
		case opCleanupFailA:
			t.Cleanup(func() {
				inv.signals++
				inv.fatalAt = 16
				t.Fatalf("verification in cleanup A failed")
			})
		case opCleanupFailB:
			t.Cleanup(func() {
				inv.signals++
				inv.fatalAt = 17
				t.Fatalf("verification in cleanup B failed")
			})
		case opErrorEmpty:
			inv.signals++
			inv.nonFatal++
			t.Error()
		case opPanicNil:
			inv.signals++
			inv.rawPanics++
			inv.panicNil++
			inv.fatalAt = 12
			panic(nil)
		case opFail:
			inv.signals++
			inv.nonFatal++
			t.Fail()
		case opFatalA:
			inv.signals++
			inv.fatalAt = 1
			t.Fatalf("fatal at site A")
		case opFatalB:
			inv.signals++
			inv.fatalAt = 2
			t.Fatalf("fatal at site B")
		case opFatalIfBit:
			if lastBit {
				inv.signals++
				inv.fatalAt = 3
				t.Fatalf("fatal at site C")
			}
		case opFatalVal:
			inv.signals++
			inv.fatalAt = 11
			if lastBit {
				inv.failMsg = "fatal at site D with value true"
			} else {
				inv.failMsg = "fatal at site D with value false"
			}
			t.Fatalf("%s", inv.failMsg) // one call site; the text was made concrete by the branch above
		case opFailNow:
			inv.signals++
			inv.fatalAt = 4
			t.FailNow()
		case opPanicStr:
			inv.signals++
			inv.rawPanics++
			inv.fatalAt = 5
			panic("user panic")
		case opPanicErr:
			inv.signals++
			inv.rawPanics++
			inv.fatalAt = 6
			panic(fmt.Errorf("user error"))
		case opNilDeref:
			inv.signals++
			inv.rawPanics++
			inv.fatalAt = 7
			var q *vInv
			_ = q.signals
		case opNilDerefB:
			inv.signals++
			inv.rawPanics++
			inv.fatalAt = 8
			var q2 *vInv
			_ = q2.signals
		case opDeepA:
			inv.signals++
			inv.fatalAt = 9
			deepFatal(t, 20)
		case opDeepB:
			inv.signals++
			inv.fatalAt = 10
			deepFatal(t, 20)
		case opSkip:
			inv.skipped = true
			if inCleanup {
				inv.cleanupSkips++
			}
			t.Skip("skipping")
		case opCtx:
			ctx := t.Context()
			if !inCallback {
				inv.ctxLive = append(inv.ctxLive, ctx.Err() == nil)
				if p.firstCtx == nil {
					p.firstCtx = ctx
				} else if p.firstCtx != ctx {
					inv.ctxSame = false
				}
			} else if inCleanup {
				inv.ctxInCleanupCancelled = append(inv.ctxInCleanupCancelled, ctx.Err() != nil)
			} else {
				// inside a Custom function: its own context must be live
				inv.ctxLive = append(inv.ctxLive, ctx.Err() == nil)
			}
		case opCleanup:
			id := p.nextCleanup
			p.nextCleanup++
			inv.cleanIds = append(inv.cleanIds, id)
			sub := p.sub
			if inCallback {
				sub = p.sub2 // nested registration
			}
			if inCleanup && inCallback && len(ops) == len(p.sub2) && len(p.sub2) > 0 && &ops[0] == &p.sub2[0] {
				sub = nil // third level: an empty cleanup
			}
			fromCustom := inCallback && !inCleanup
			if fromCustom {
				inv.cbReg++
			}
			t.Cleanup(func() {
				if fromCustom {
					inv.cbRun++
				}
				inv.cleanRun = append(inv.cleanRun, id)
				defer func() {
					if r := recover(); r != nil {
						if isInvalid(r) {
							inv.cleanupInvalid++
						}
						panic(r)
					}
				}()
				p.execCB(t, sub, inv, true, true)
			})
		case opCustom:
			var prevCtx context.Context
			// failure signals raised on the inner T - by the generator function or by the cleanups it
			// registered - reach the test case as a panic out of Draw
			signalsBefore := inv.signals
			func() {
				defer func() { inv.customSignals += inv.signals - signalsBefore }()
				customDraw(t, p, inv, &prevCtx, inCallback)
			}()
		}
	}
}

// customDraw is the body of opCustom: a draw from a Custom generator whose function runs the
// sub-program on its own T.
func customDraw(t *T, p *vProg, inv *vInv, prev *context.Context, inCallback bool) {
	{
		{
			prevCtx := *prev
			v := Custom(func(ct *T) int {
				// every call of the generator function (also a retry after a skip) is its own
				// invocation: the cleanups of the previous call have run, its context is cancelled
				inv.customCalls++
				if inv.cbReg != inv.cbRun {
					inv.customLeak = true
				}
				ctx := ct.Context()
				if prevCtx != nil && (ctx == prevCtx || prevCtx.Err() == nil) {
					inv.customCtxBad = true
				}
				prevCtx = ctx
				p.exec(ct, p.sub, inv, true)
				if Bool().Draw(ct, "cb") {
					return 1
				}
				return 0
			}).Draw(t, "custom")
			inv.addDraw(uint64(v), inCallback)
		}
	}
}

func deepFatal(t *T, depth int) {
	if depth == 0 {
		t.Fatalf("fatal deep inside")
	}
	deepFatal(t, depth-1)
}

func boolSliceGoString(sl []bool) string {
	s := "[]bool{"
	for i, b := range sl {
		if i > 0 {
			s += ", "
		}
		if b {
			s += "true"
		} else {
			s += "false"
		}
	}
	return s + "}"
}

func farDeadline() time.Time { return time.Now().Add(24 * time.Hour) }

// outcomeProp is a property whose i-th invocation passes, skips or fails as the solver chooses.
type outcomeProp struct {
	calls        int
	passes       int
	skips        int
	fails        int
	after        int // invocations after the first failing one
	firstOutcome int
}

func (o *outcomeProp) prop(t *T) {
	o.calls++
	if o.fails > 0 {
		o.after++
	}
	out := 2
	switch nondetU8("o" + itoa(o.calls)) {
	case 0:
		out = 0
	case 1:
		out = 1
	}
	if o.calls == 1 {
		o.firstOutcome = out
	}
	switch out {
	case 0:
		o.passes++
	case 1:
		o.skips++
		t.Skip("skip")
	default:
		o.fails++
		t.Fatalf("fail")
	}
}

func symOps(name string, k int, alphabet []uint8) []uint8 {
	var ops []uint8
	for i := 0; i < k; i++ {
		op := nondetU8(name + ".op" + itoa(i))
		assume(inAlphabet(op, alphabet))
		ops = append(ops, op)
	}
	return ops
}

func freshT(t *T) bool {
	return t.failed == "" && len(t.cleanups) == 0 && t.ctx == nil && t.cancelCtx == nil && !t.cleaning.Load()
}

// cTB is a TB without shared state: testing.T's Helper/Name/Logf/Log are goroutine-safe by contract.
type cTB struct{ nilTB }

func (cTB) Helper() {}

func (cTB) Name() string { return "C14" }

func (cTB) Logf(string, ...any) {}

func (cTB) Log(...any) {}

func concProgs(name string, g, k int, alphabet []uint8) [][]uint8 {
	progs := make([][]uint8, g)
	for gi := 0; gi < g; gi++ {
		for j := 0; j < k; j++ {
			op := nondetU8(name + itoa(gi) + "." + itoa(j))
			assume(inAlphabet(op, alphabet))
			progs[gi] = append(progs[gi], op)
		}
	}
	return progs
}

// helperFail is an assertion helper in the style of testing helpers: it calls t.Helper() and has
// two distinct failure sites.
func helperFail(t *T, second bool) {
	t.Helper()
	if !second {
		t.Fatalf("helper: first check failed")
	}
	t.Fatalf("helper: second check failed")
}
