package rapid

// C08: T.Repeat follows the check/action discipline.

const (
	evInv = iota
	evAct
)

const (
	endOK = iota
	endSkipNoDraw
	endSkipAfterDraw
	endFail
)

type smEvent struct {
	kind int
	act  int
	end  int
}

type smHarness struct {
	trace   []smEvent
	running bool
	overlap bool
}

// callback wraps one action/invariant: records start, how it ended, and detects overlap.
func (h *smHarness) callback(kind, act int, ops []uint8) func(*T) {
	return func(t *T) {
		if h.running {
			h.overlap = true
		}
		h.running = true
		draws0 := t.draws
		ev := smEvent{kind: kind, act: act, end: endOK}
		defer func() {
			h.running = false
			if r := recover(); r != nil {
				if isInvalid(r) && t.failed != "" {
					ev.end = endFail // a non-fatal failure was signalled before the skip: the test case is falsified here
				} else if isInvalid(r) {
					if t.draws == draws0 {
						ev.end = endSkipNoDraw
					} else {
						ev.end = endSkipAfterDraw
					}
				} else {
					ev.end = endFail
				}
				h.trace = append(h.trace, ev)
				panic(r)
			}
			if t.failed != "" {
				ev.end = endFail
			}
			h.trace = append(h.trace, ev)
		}()
		for _, op := range ops {
			switch op {
			case opReturn:
				return
			case opDrawBool:
				Bool().Draw(t, "b")
			case opSkip:
				t.Skip("n/a")
			case opFatalA:
				t.Fatalf("action failed")
			case opErrorf:
				t.Errorf("action failed (non-fatal)")
			case opPanicStr:
				panic("action panic")
			}
		}
	}
}

var alphaAction = []uint8{opReturn, opDrawBool, opSkip, opFatalA, opErrorf, opPanicStr}
var alphaInvariant = []uint8{opReturn, opFatalA, opErrorf}

func H_C08_repeat() {
	h := &smHarness{}
	nact := 1 + choose("nact", 2)
	withInv := choose("withInv", 2) == 1
	names := []string{"A", "B", "C"}
	actions := map[string]func(*T){}
	for i := 0; i < nact; i++ {
		actions[names[i]] = h.callback(evAct, i, symOps("act"+itoa(i), 2, alphaAction))
	}
	if withInv {
		actions[""] = h.callback(evInv, -1, symOps("inv", 1, alphaInvariant))
	}
	flags.steps = 2
	L := 10
	if thorough() {
		L = 12
	}
	tb := newVTB("SM")
	t := newT(tb, newBufBitStream(symWords("w", L), false), false, nil)
	err := checkOnce(t, func(t *T) { t.Repeat(actions) })

	vassert(!h.overlap, "C08: two callbacks ran at the same time")
	completed := 0
	failed := false
	for i, ev := range h.trace {
		vassert(!failed, "C08: an action or invariant ran after the first falsification")
		if withInv {
			if i == 0 {
				vassert(ev.kind == evInv, "C08: the invariant was not checked before the first action")
			} else {
				prev := h.trace[i-1]
				if prev.kind == evAct && prev.end == endOK {
					vassert(ev.kind == evInv, "C08: a completed action was not followed by an invariant check")
				} else {
					vassert(ev.kind == evAct, "C08: the invariant ran although no action completed since the last check")
				}
			}
		} else {
			vassert(ev.kind == evAct, "C08: an invariant ran although none was supplied")
		}
		if ev.kind == evAct {
			vassert(ev.act >= 0 && ev.act < nact, "C08: an unknown action ran")
			if ev.end == endOK {
				completed++
			}
		}
		if ev.end == endFail {
			failed = true
		}
	}
	if failed {
		reach("falsified")
		vassert(err != nil && !err.isInvalidData(), "C02: a failing action/invariant did not fail the test case")
	} else if err == nil {
		reach("passed")
		if withInv && len(h.trace) > 0 {
			last := h.trace[len(h.trace)-1]
			vassert(last.kind == evInv || last.end != endOK, "C08: the run ended on a completed action without the final invariant check")
		}
	} else {
		reach("invalid-or-novalid")
	}
	if completed > 0 {
		reach("step-completed")
	}
}

// H_C08_noValidAction: if no action is able to run, Repeat fails instead of looping forever.
func H_C08_noValidAction() {
	h := &smHarness{}
	ops := symOps("act", 1, []uint8{opSkip, opReturn})
	actions := map[string]func(*T){"A": h.callback(evAct, 0, ops)}
	flags.steps = 2
	words := make([]uint64, 400) // all-ones stream (every coin says continue), long enough for 100 retries
	for i := range words {
		words[i] = ^uint64(0)
	}
	tb := newVTB("SM")
	t := newT(tb, newBufBitStream(words, false), false, nil)
	err := checkOnce(t, func(t *T) { t.Repeat(actions) })
	if ops[0] == opSkip {
		reach("always-skips")
		vassert(err != nil && err.isStopTest(), "C08: Repeat with no runnable action must fail the test case")
		vassert(len(h.trace) == validActionTries, "C08: Repeat did not give up after the documented number of tries")
	} else {
		reach("runs")
	}
}
