package rapid

// C18: every allowed value is reachable, edges are hit with non-negligible probability,
// seeds are fresh.

import "math"

func spanOfLen(name string, B int) uint64 {
	x := nondetU64(name)
	assume(lenIn(x, B))
	return x
}

// fullWidthWitness asks the solver for a bias word that makes the real genUintNBiased draw a
// span of bit length B at full width (neither shortened nor replaced by the maximum): with
// span 2^B-1 it must return 2^(B-1), which needs B bits and is not the maximum.
func fullWidthWitness(B int) (uint64, bool) {
	if B < 2 {
		return 0, true // 0- and 1-bit spans: every value is an edge (covered by H_C18_edges)
	}
	span := ^uint64(0) >> uint(64-B)
	v := uint64(1) << uint(B-1)
	b := nondetU64("b")
	s := newBufBitStream([]uint64{b, v, v, v}, false)
	var u uint64
	if catch(func() { u, _, _ = genUintNBiased(s, span) }) != nil {
		return 0, false
	}
	if u != v {
		return 0, false
	}
	return pickU64(b), true
}

// H_C18_reachUint: for every span of bit length B and every value in it, some bitstream makes
// the biased generator return exactly that value (Skolem witness: the bias word found by the
// solver, then the value itself as the data word).
func H_C18_reachUint() {
	B := choose("B", 65)
	bStar, ok := fullWidthWitness(B)
	if !ok {
		return
	}
	reach("witness-" + itoa(B))
	min := nondetU64("min")
	span := spanOfLen("span", B)
	assume(min <= min+span) // no wrap-around: max = min+span
	max := min + span
	v := nondetU64("v")
	assume(min <= v && v <= max)
	g := Uint64Range(min, max)
	t := newT(nil, newBufBitStream([]uint64{bStar, v - min, 0, 0}, false), false, nil)
	var got uint64
	p := catch(func() { got = g.value(t) })
	vassert(p == nil && got == v, "C18: a value inside the range cannot be produced by the witness bitstream (unreachable value band?)")
}

// H_C18_reachInt: the same through the signed split of Int64Range.
func H_C18_reachInt() {
	B := choose("B", 65)
	bStar, ok := fullWidthWitness(B)
	if !ok {
		return
	}
	reach("witness-" + itoa(B))
	min, max := nondetI64("min"), nondetI64("max")
	v := nondetI64("v")
	assume(min <= v && v <= max)
	var coin, off, span uint64
	if v >= 0 && !(max <= 0) {
		// non-negative branch: genUintRange(posMin, max)
		lo := int64(0)
		if min > 0 {
			lo = min
		}
		coin, off, span = 0, uint64(v-lo), uint64(max)-uint64(lo)
		reach("non-negative")
	} else {
		// negative branch: genUintRange(negMin, -min), value = -u
		negMin := uint64(1)
		if max <= 0 {
			negMin = uint64(-max)
		}
		coin, off, span = ^uint64(0), uint64(-v)-negMin, uint64(-min)-negMin
		reach("negative")
	}
	assume(lenIn(span, B))
	g := Int64Range(min, max)
	t := newT(nil, newBufBitStream([]uint64{coin, bStar, off, 0, 0}, false), false, nil)
	var got int64
	p := catch(func() { got = g.value(t) })
	vassert(p == nil && got == v, "C18: a value inside the signed range cannot be produced by the witness bitstream (unreachable value band?)")
}

// geomParams replicates the documented bias schedule of genUintNBiased for a span of bit length B.
func geomParams(B int) (p float64, thr int) {
	m := math.Max(8, (float64(B)+48)/7)
	return 1 / (m + 1), 64 - (16-int(m))*4
}

// H_C18_edges: forcing regions. A bias word below Tlo forces a 1-bit draw, whose zero gives the
// minimum; a bias word above Thi forces the maximum. Both regions have measure >= 2^-8, so a few
// thousand draws miss an edge with probability < e^-10.
func H_C18_edges() {
	B := 1 + choose("B", 64)
	p, thr := geomParams(B)
	const slack = 1 << 30
	tlo := uint64(p*(1<<53)) - slack
	K := thr - 1
	if B > K {
		K = B
	}
	thi := uint64(math.Ceil((1-math.Pow(1-p, float64(K)))*(1<<53))) + slack
	vassert(tlo >= 1<<45, "C18: the region forcing the minimum has measure below 2^-8")
	vassert((1<<53)-thi >= 1<<45, "C18: the region forcing the maximum has measure below 2^-8")

	min := nondetU64("min")
	span := spanOfLen("span", B)
	assume(min <= min+span)
	max := min + span
	b, w := nondetU64("b"), nondetU64("w")
	b &= 1<<53 - 1
	g := Uint64Range(min, max)
	t := newT(nil, newBufBitStream([]uint64{b, w, 0}, false), false, nil)
	var got uint64
	if choose("edge", 2) == 0 {
		assume(b < tlo)
		assume(w&1 == 0)
		p := catch(func() { got = g.value(t) })
		vassert(p == nil && got == min, "C18: the bias region that should force the minimum does not")
		reach("min-forced")
	} else {
		assume(b >= thi)
		p := catch(func() { got = g.value(t) })
		vassert(p == nil && got == max, "C18: the bias region that should force the maximum does not")
		reach("max-forced")
	}
}

// H_C18_fresh: without -rapid.seed the base seed is the environment's entropy, and the seeds of
// the test cases of one run are pairwise different.
func H_C18_fresh() {
	flags.seed = 0
	s1, s2 := baseSeed(), baseSeed()
	if s1 != s2 {
		reach("two-calls-can-differ")
	}
	if s1 != 12345 {
		reach("not-a-constant")
	}
	base := nondetU64("base")
	i, j := choose("i", 40), choose("j", 40)
	if i < j {
		vassert(seedOfCase(base, i) != seedOfCase(base, j), "C18: two test cases of one run get the same seed")
		reach("distinct")
	}
}

// H_C18_nativeBand (native confirmation of an unreachable band reported by H_C18_reach*): draws
// many values from Uint64Range(0, 2^B-1) with the real PRNG and counts those of full bit length
// other than the maximum. Does nothing under gosym.
func H_C18_nativeBand() {
	if symbolic() {
		return
	}
	B := nondetInt("B")
	if B < 2 || B > 64 {
		return
	}
	span := ^uint64(0) >> uint(64-B)
	g := Uint64Range(0, span)
	hits := 0
	for seed := uint64(1); seed <= 400000; seed++ {
		t := newT(nil, newRandomBitStream(seed, false), false, nil)
		v := g.value(t)
		if v != span && v >= uint64(1)<<uint(B-1) {
			hits++
		}
	}
	observe("hits", uint64(hits))
	vassert(hits > 0, "C18: no value of the top bit band in 400000 draws (unreachable value band)")
}

// twoChecks runs the real checkTB twice under one test name without -rapid.seed and returns,
// for each run, the first word its first test case drew and (under gosym) the seed that test
// case's PRNG was initialised with.
func twoChecks() (w [2]uint64, seed [2]uint64, ok bool) {
	flags.seed = 0
	flags.checks = 1
	flags.nofailfile = true
	flags.shrinkTime = 0
	n := [2]int{}
	for k := 0; k < 2; k++ {
		k := k
		// the property always passes: it only records what the first test case starts from
		runIsolated(func() {
			checkTB(newVTB("Fresh"), farDeadline(), func(t *T) {
				if n[k] == 0 {
					if symbolic() {
						seed[k] = streamSeed(t.s.(*randomBitStream))
					}
					w[k] = t.s.drawBits(64)
				}
				n[k]++
			})
		})
	}
	return w, seed, n[0] > 0 && n[1] > 0
}

// H_C18_freshChecks: two Check calls of the same test in one process never start from the same
// seed - for EVERY environment that satisfies the contracts of its sources: the entropy source
// (hash/maphash) hands out pairwise distinct values, the clock is merely non-decreasing (two
// readings may be equal), the pid is constant. Under gosym the seeds themselves are compared;
// natively (replay) the first words of 4 pairs of real runs.
func H_C18_freshChecks() {
	symClock(true)
	if symbolic() {
		_, seed, ok := twoChecks()
		vassert(ok, "C18: Check ran no test case")
		vassert(seed[0] != seed[1], "C18: two Check calls of one test in one process explore the same test cases (no fresh seed)")
		if seed[0] != 12345 {
			reach("not-a-constant")
		}
		reach("compared")
		return
	}
	differ := false
	for i := 0; i < 4; i++ {
		w, _, ok := twoChecks()
		differ = differ || (ok && w[0] != w[1])
	}
	vassert(differ, "C18: two Check calls of one test in one process explore the same test cases (no fresh seed)")
	reach("not-a-constant")
	reach("compared")
}

var c18FloatBounds = []float64{math.Inf(-1), -math.MaxFloat64, -1, 0, 1, math.MaxFloat64, math.Inf(1)}
var c18FloatNames = []string{"-inf", "-maxfloat", "-1", "0", "1", "maxfloat", "inf"}

// floatEdges: the boundary values of a float range are reachable: for every range with bounds
// from the given subset of {-Inf, -MaxFloat64, -1, 0, 1, MaxFloat64, +Inf} the solver must find
// bitstreams on which the real Float64Range returns exactly min, exactly max, and 0 when in range.
func floatEdges(subset []int) {
	i := subset[choose("min", len(subset))]
	j := subset[choose("max", len(subset))]
	if i > j {
		return
	}
	lo, hi := c18FloatBounds[i], c18FloatBounds[j]
	g := Float64Range(lo, hi)
	t := newT(nil, newBufBitStream(symWords("w", 8), false), false, nil)
	var v float64
	if catch(func() { v = g.value(t) }) != nil {
		return
	}
	vassert(v >= lo && v <= hi, "C03: Float64Range value out of range")
	tag := "[" + c18FloatNames[i] + "," + c18FloatNames[j] + "]"
	if v == hi {
		reach("max-of-" + tag)
	}
	if v == lo {
		reach("min-of-" + tag)
	}
	if v == 0 {
		reach("zero-in-" + tag)
	}
}

// H_C18_floatEdges: ranges over {-Inf, -1, 0, +Inf}.
func H_C18_floatEdges() { floatEdges([]int{0, 2, 3, 6}) }

// H_C18_floatEdgesFull: all 28 ranges over the seven bounds (thorough tier).
func H_C18_floatEdgesFull() { floatEdges([]int{0, 1, 2, 3, 4, 5, 6}) }

// H_C18_nativeFloatEdge (native confirmation of an unreachable float edge): 20000 draws of the
// real generator per range; every edge must show up. Does nothing under gosym.
func H_C18_nativeFloatEdge() {
	if symbolic() {
		return
	}
	for i := range c18FloatBounds {
		for j := i; j < len(c18FloatBounds); j++ {
			lo, hi := c18FloatBounds[i], c18FloatBounds[j]
			g := Float64Range(lo, hi)
			sawLo, sawHi, sawZero := false, false, !(lo <= 0 && 0 <= hi)
			for seed := uint64(1); seed <= 20000; seed++ {
				v := g.value(newT(nil, newRandomBitStream(seed, false), false, nil))
				sawLo = sawLo || v == lo
				sawHi = sawHi || v == hi
				sawZero = sawZero || v == 0
			}
			vassert(sawLo && sawHi && sawZero, "C18: a boundary value of a float range (min, max or zero) never shows up in 20000 draws")
		}
	}
}
