package rapid

// Harness anchored directly on checkFailFile (C17: loading is total, unusable files are ignored).

// H_C17_loadTotal: loadFailFile returns an error or a result for every malformed shape; never panics.
func H_C17_loadTotal() {
	vfsReset()
	k := choose("shape", nUnusable)
	content, unreadable := unusableFile(k, 0)
	vfs.files["f.fail"] = content
	if unreadable {
		vfs.failOpen["f.fail"] = true
	}
	version, _, buf, err := loadFailFile("f.fail")
	if err != nil {
		reach("error")
		vassert(version == "" && buf == nil, "C17: loadFailFile returns data together with an error")
	} else {
		reach("loaded")
	}
	// checkFailFile never fails the test for these shapes (none of them falsifies the property)
	d := &streamProp{}
	tb := newVTB("T")
	b2, e1, e2 := checkFailFile(tb, "f.fail", d.prop)
	vassert(b2 == nil && e1 == nil && e2 == nil, "C17: an unusable fail file is not ignored by checkFailFile")
	vassert(!tb.failed, "C17: an unusable fail file failed the test")
}
