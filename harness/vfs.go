package rapid

// In-memory file system used (under gosym only) in place of package os:
// gosym redirects os.MkdirAll, os.CreateTemp, os.Open, os.Rename, os.Remove,
// (*os.File).Name/WriteString/Close/Read and filepath.Glob to these functions.
// Every call is one crashable step; a write may also crash having written any prefix.

import (
	"io"
	"io/fs"
	"os"
	"path/filepath"
	"sort"
	"strings"
	"time"
)

type vfsInode struct {
	content string
}

type vfsFile struct {
	name    string // the name it was opened under (what (*os.File).Name reports)
	ino     *vfsInode
	off     int
	closed  bool
	writing bool
}

type vfsState struct {
	files    map[string]string // path -> content (view, kept in sync with inodes)
	inodes   map[string]*vfsInode
	dirs     map[string]bool
	open     map[*os.File]*vfsFile
	step     int
	crashAt  int // -1: never
	tmpSeq   int
	log      []string
	partial  int             // how a write that is interrupted splits: 0 nothing, 1 one byte, 2 half, 3 all but one byte
	failOpen map[string]bool // paths whose Open fails (unreadable)
}

var vfs = newVFS()

func newVFS() *vfsState {
	return &vfsState{files: map[string]string{}, inodes: map[string]*vfsInode{}, dirs: map[string]bool{".": true}, open: map[*os.File]*vfsFile{}, crashAt: -1, failOpen: map[string]bool{}}
}

func vfsReset() { vfs = newVFS() }

// tick is a crash point in front of a file-system-affecting call.
func (v *vfsState) tick(what string) {
	v.log = append(v.log, what)
	if v.step == v.crashAt {
		crashNow()
	}
	v.step++
}

func vfsMkdirAll(path string, perm os.FileMode) error {
	var parts []string
	for p := filepath.Clean(path); p != "." && p != "/"; p = filepath.Dir(p) {
		parts = append(parts, p)
	}
	for i := len(parts) - 1; i >= 0; i-- {
		if !vfs.dirs[parts[i]] {
			vfs.tick("mkdir " + parts[i])
			vfs.dirs[parts[i]] = true
		}
	}
	return nil
}

func vfsCreateTemp(dir, pattern string) (*os.File, error) {
	vfs.tick("create-temp in " + dir)
	if !vfs.dirs[filepath.Clean(dir)] {
		return nil, &fs.PathError{Op: "open", Path: dir, Err: fs.ErrNotExist}
	}
	vfs.tmpSeq++
	suffix := "r" + itoa(1000+vfs.tmpSeq)
	name := pattern + suffix
	if i := strings.LastIndex(pattern, "*"); i >= 0 {
		name = pattern[:i] + suffix + pattern[i+1:]
	}
	p := filepath.Join(dir, name)
	ino := &vfsInode{}
	vfs.inodes[p] = ino
	vfs.files[p] = ""
	f := &os.File{}
	vfs.open[f] = &vfsFile{name: p, ino: ino, writing: true}
	return f, nil
}

func vfsCreate(name string) (*os.File, error) {
	vfs.tick("create " + name)
	ino := &vfsInode{}
	vfs.inodes[name] = ino
	vfs.files[name] = ""
	f := &os.File{}
	vfs.open[f] = &vfsFile{name: name, ino: ino, writing: true}
	return f, nil
}

func vfsOpen(name string) (*os.File, error) {
	content, ok := vfs.files[name]
	if !ok || vfs.failOpen[name] {
		return nil, &fs.PathError{Op: "open", Path: name, Err: fs.ErrNotExist}
	}
	ino := vfs.inodes[name]
	if ino == nil { // file planted directly by a harness
		ino = &vfsInode{content: content}
		vfs.inodes[name] = ino
	}
	f := &os.File{}
	vfs.open[f] = &vfsFile{name: name, ino: ino}
	return f, nil
}

func vfsFileName(f *os.File) string { return vfs.open[f].name }

func vfsFileWriteString(f *os.File, s string) (int, error) {
	vf := vfs.open[f]
	if vf == nil || vf.closed {
		return 0, fs.ErrClosed
	}
	// crash before the write, or in the middle of it leaving a prefix
	if vfs.step == vfs.crashAt && len(s) > 0 {
		n := 0
		switch vfs.partial {
		case 1:
			n = 1
		case 2:
			n = len(s) / 2
		case 3:
			n = len(s) - 1
		}
		vf.ino.content = vfsWriteAt(vf.ino.content, vf.off, s[:n])
		vfs.sync()
	}
	vfs.tick("write " + vf.name)
	vf.ino.content = vfsWriteAt(vf.ino.content, vf.off, s)
	vf.off += len(s)
	vfs.sync()
	return len(s), nil
}

func vfsFileWrite(f *os.File, b []byte) (int, error) { return vfsFileWriteString(f, string(b)) }

func vfsFileClose(f *os.File) error {
	vf := vfs.open[f]
	if vf == nil || vf.closed {
		return fs.ErrClosed
	}
	if vf.writing {
		vfs.tick("close " + vf.name)
	}
	vf.closed = true
	return nil
}

func vfsFileRead(f *os.File, b []byte) (int, error) {
	vf := vfs.open[f]
	if vf == nil || vf.closed {
		return 0, fs.ErrClosed
	}
	content := vf.ino.content
	if vf.off >= len(content) {
		return 0, io.EOF
	}
	n := copy(b, content[vf.off:])
	vf.off += n
	return n, nil
}

func vfsRename(oldpath, newpath string) error {
	vfs.tick("rename " + oldpath + " -> " + newpath)
	c, ok := vfs.files[oldpath]
	if !ok {
		return &fs.PathError{Op: "rename", Path: oldpath, Err: fs.ErrNotExist}
	}
	if !vfs.dirs[filepath.Dir(newpath)] {
		return &fs.PathError{Op: "rename", Path: newpath, Err: fs.ErrNotExist}
	}
	_ = c
	ino := vfs.inodes[oldpath]
	if ino == nil {
		ino = &vfsInode{content: c}
	}
	delete(vfs.files, oldpath)
	delete(vfs.inodes, oldpath)
	vfs.inodes[newpath] = ino
	vfs.files[newpath] = ino.content
	return nil
}

func vfsRemove(name string) error {
	if _, ok := vfs.files[name]; !ok {
		return &fs.PathError{Op: "remove", Path: name, Err: fs.ErrNotExist}
	}
	vfs.tick("remove " + name)
	delete(vfs.files, name)
	delete(vfs.inodes, name)
	return nil
}

func vfsGlob(pattern string) ([]string, error) {
	var names []string
	for n := range vfs.files {
		if ok, _ := filepath.Match(pattern, n); ok {
			names = append(names, n)
		}
	}
	sort.Strings(names)
	return names, nil
}

func (v *vfsState) paths() []string {
	var names []string
	for n := range v.files {
		names = append(names, n)
	}
	sort.Strings(names)
	return names
}

// sync refreshes the path -> content view from the inodes (a file keeps receiving the writes
// made through an open handle after it has been renamed).
func (v *vfsState) sync() {
	for p, ino := range v.inodes {
		if _, ok := v.files[p]; ok {
			v.files[p] = ino.content
		}
	}
}

func vfsOpenFile(name string, flag int, perm os.FileMode) (*os.File, error) {
	_, exists := vfs.files[name]
	if flag&(os.O_WRONLY|os.O_RDWR|os.O_CREATE) == 0 {
		return vfsOpen(name)
	}
	if !exists {
		if flag&os.O_CREATE == 0 {
			return nil, &fs.PathError{Op: "open", Path: name, Err: fs.ErrNotExist}
		}
		if !vfs.dirs[filepath.Dir(name)] {
			return nil, &fs.PathError{Op: "open", Path: name, Err: fs.ErrNotExist}
		}
		vfs.tick("create " + name)
		ino := &vfsInode{}
		vfs.inodes[name] = ino
		vfs.files[name] = ""
		f := &os.File{}
		vfs.open[f] = &vfsFile{name: name, ino: ino, writing: true}
		return f, nil
	}
	if flag&os.O_EXCL != 0 && flag&os.O_CREATE != 0 {
		return nil, &fs.PathError{Op: "open", Path: name, Err: fs.ErrExist}
	}
	ino := vfs.inodes[name]
	if ino == nil {
		ino = &vfsInode{content: vfs.files[name]}
		vfs.inodes[name] = ino
	}
	if flag&os.O_TRUNC != 0 {
		vfs.tick("truncate " + name)
		ino.content = ""
		vfs.sync()
	}
	f := &os.File{}
	vf := &vfsFile{name: name, ino: ino, writing: true}
	if flag&os.O_APPEND != 0 {
		vf.off = len(ino.content)
	}
	vfs.open[f] = vf
	return f, nil
}

// vfsInfo is the fs.FileInfo of the in-memory file system.
type vfsInfo struct {
	name string
	size int64
	dir  bool
}

func (i vfsInfo) Name() string { return i.name }
func (i vfsInfo) Size() int64  { return i.size }
func (i vfsInfo) Mode() fs.FileMode {
	if i.dir {
		return fs.ModeDir | 0775
	}
	return 0600
}
func (i vfsInfo) ModTime() time.Time { return time.Time{} }
func (i vfsInfo) IsDir() bool        { return i.dir }
func (i vfsInfo) Sys() any           { return nil }

func vfsStat(name string) (fs.FileInfo, error) {
	p := filepath.Clean(name)
	if vfs.dirs[p] {
		return vfsInfo{name: filepath.Base(p), dir: true}, nil
	}
	if c, ok := vfs.files[name]; ok {
		return vfsInfo{name: filepath.Base(name), size: int64(len(c))}, nil
	}
	return nil, &fs.PathError{Op: "stat", Path: name, Err: fs.ErrNotExist}
}

func vfsReadFile(name string) ([]byte, error) {
	c, ok := vfs.files[name]
	if !ok || vfs.failOpen[name] {
		return nil, &fs.PathError{Op: "open", Path: name, Err: fs.ErrNotExist}
	}
	return []byte(c), nil
}

func vfsFileSync(f *os.File) error { return nil }

// vfsWriteAt writes s into content at offset off (extending the file as needed).
func vfsWriteAt(content string, off int, s string) string {
	if off >= len(content) {
		return content + s
	}
	end := off + len(s)
	if end >= len(content) {
		return content[:off] + s
	}
	return content[:off] + s + content[end:]
}
