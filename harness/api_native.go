package rapid

// Harness API, native side: the same harness functions compile against these
// bodies under `go test -overlay` and re-execute a solver model (a replay
// vector name -> value) against the real build.

import (
	"fmt"
	"math"
	"os"
	"strconv"
	"sync"
)

type verifNativeState struct {
	mu       sync.Mutex
	vals     map[string]uint64
	count    map[string]int
	failures []string
	reached  map[string]bool
	observed []string
}

var verifNative = &verifNativeState{}

type verifAssumeFailed struct{}

func verifReset(vals map[string]uint64) {
	verifNative = &verifNativeState{vals: vals, count: map[string]int{}, reached: map[string]bool{}}
}

func (s *verifNativeState) next(name string) uint64 {
	s.mu.Lock()
	defer s.mu.Unlock()
	n := s.count[name]
	s.count[name] = n + 1
	if n > 0 {
		name = fmt.Sprintf("%s#%d", name, n)
	}
	return s.vals[name]
}

func nondetU64(name string) uint64  { return verifNative.next(name) }
func nondetI64(name string) int64   { return int64(verifNative.next(name)) }
func nondetInt(name string) int     { return int(verifNative.next(name)) }
func nondetUint(name string) uint   { return uint(verifNative.next(name)) }
func nondetU32(name string) uint32  { return uint32(verifNative.next(name)) }
func nondetI32(name string) int32   { return int32(verifNative.next(name)) }
func nondetU16(name string) uint16  { return uint16(verifNative.next(name)) }
func nondetI16(name string) int16   { return int16(verifNative.next(name)) }
func nondetU8(name string) uint8    { return uint8(verifNative.next(name)) }
func nondetI8(name string) int8     { return int8(verifNative.next(name)) }
func nondetBool(name string) bool   { return verifNative.next(name)&1 != 0 }
func nondetF64(name string) float64 { return math.Float64frombits(verifNative.next(name)) }
func nondetF32(name string) float32 { return math.Float32frombits(uint32(verifNative.next(name))) }

func assume(c bool) {
	if !c {
		panic(verifAssumeFailed{})
	}
}

func vassert(c bool, msg string) {
	if !c {
		verifNative.mu.Lock()
		dup := false
		if concRounds() > 1 {
			for _, f := range verifNative.failures {
				dup = dup || f == msg
			}
		}
		if !dup {
			verifNative.failures = append(verifNative.failures, msg)
		}
		verifNative.mu.Unlock()
	}
}

func reach(label string) {
	verifNative.mu.Lock()
	verifNative.reached[label] = true
	verifNative.mu.Unlock()
}

func observe(name string, v uint64) {
	verifNative.mu.Lock()
	verifNative.observed = append(verifNative.observed, fmt.Sprintf("%s=%d", name, v))
	verifNative.mu.Unlock()
}

func choose(name string, n int) int {
	v := int(verifNative.next(name))
	if v < 0 || v >= n {
		panic(verifAssumeFailed{})
	}
	return v
}

func concretizeInt(x int) int       { return x }
func concretizeU64(x uint64) uint64 { return x }
func symbolic() bool                { return false }

func runIsolated(f func()) (exited bool) {
	done := make(chan bool)
	var p any
	go func() {
		normal := false
		defer func() {
			if !normal {
				p = recover()
			}
			done <- !normal && p == nil
		}()
		f()
		normal = true
	}()
	exited = <-done
	if p != nil {
		panic(p)
	}
	return exited
}

func thorough() bool { return os.Getenv("VERIF_TIER") == "thorough" }

func bOr(a, b bool) bool      { return a || b }
func bAnd(a, b bool) bool     { return a && b }
func bImplies(a, b bool) bool { return !a || b }

func symKey(x uint64) string { return fmt.Sprint(x) }

// crash injection is only available under gosym
func runUntilCrash(f func()) bool { f(); return false }
func crashNow()                   { panic("crashNow is not available natively") }

func scratchDir() string {
	d, err := os.MkdirTemp("", "verif-scratch-")
	if err != nil {
		panic(err)
	}
	return d
}

func scratchDone(dir string) {
	if dir != "" {
		_ = os.RemoveAll(dir)
	}
}

func symClock(on bool) {}

func pickU64(x uint64) uint64 { return x }

func concurrent(p int) {}

func concRounds() int {
	if n, err := strconv.Atoi(os.Getenv("VERIF_ROUNDS")); err == nil && n > 0 {
		return n
	}
	return 1
}

var verifBarrier chan struct{}

func barrierReset() { verifBarrier = make(chan struct{}) }
func barrierWait()  { <-verifBarrier }
func barrierOpen()  { close(verifBarrier) }

var verifHarnessMu sync.Mutex

func hLock()   { verifHarnessMu.Lock() }
func hUnlock() { verifHarnessMu.Unlock() }

func cutLoop(fn string, pre func(), post func()) {}
func loopVarInt(name string) int                 { panic("loopVar is only available under gosym") }
func loopVarU64(name string) uint64              { panic("loopVar is only available under gosym") }
func loopVarI64(name string) int64               { panic("loopVar is only available under gosym") }
func cutActive() bool                            { return false }
func streamSeed(r *randomBitStream) uint64       { panic("streamSeed is only available under gosym") }
func loopFrameValue(typ string) any              { panic("loopFrameValue is only available under gosym") }
func tickingTimestamps(on bool)                  {}
