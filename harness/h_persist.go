package rapid

// C06 / C16 / C17: fail files.

import (
	"path/filepath"
	"strings"
)

// representative captured-output lines: every length class around the 64 KiB token limit of
// bufio.Scanner, and contents that look like comments, data lines, version fields, blanks, CRs.
func sampleLine(k int) string {
	rep := func(unit string, n int) string {
		if n == 0 {
			return ""
		}
		return strings.Repeat(unit, n/len(unit)+1)[:n]
	}
	switch k {
	case 0:
		return ""
	case 1:
		return "x"
	case 2:
		return "# not a comment of ours"
	case 3:
		return "v0.4.8#1"
	case 4:
		return "0x10\r"
	case 5:
		return "   "
	case 6:
		return rep("y", 65533)
	case 7:
		return rep("#", 65534)
	case 8:
		return rep("z ", 65535)
	default:
		return rep("0x1 ", 70000)
	}
}

const nSampleLines = 10

func symOutput() []byte {
	maxLines := 2
	if thorough() {
		maxLines = 3
	}
	nlines := choose("nlines", maxLines+1)
	var lines []string
	for i := 0; i < nlines; i++ {
		lines = append(lines, sampleLine(choose("line"+itoa(i), nSampleLines)))
	}
	out := strings.Join(lines, "\n")
	if nlines > 0 && choose("trailingNL", 2) == 1 {
		out += "\n"
	}
	return []byte(out)
}

// H_C06_roundtrip: what saveFailFile writes, loadFailFile reads back exactly.
func H_C06_roundtrip() {
	vfsReset()
	seed := nondetU64("seed")
	buf := symSlice("buf", 2)
	output := symOutput()
	name := "TestFoo"
	_, filename := failFileName(name)
	dir := scratchDir()
	defer scratchDone(dir)
	filename = filepath.Join(dir, filename)
	err := saveFailFile(filename, rapidVersion, output, seed, buf)
	vassert(err == nil, "C06: saveFailFile failed on a healthy file system")
	version, seed2, buf2, err2 := loadFailFile(filename)
	vassert(err2 == nil, "C06: a fail file that was just saved cannot be loaded (persisted failure would be ignored)")
	if err2 != nil {
		return
	}
	reach("loaded")
	vassert(version == rapidVersion, "C06: version does not round-trip through the fail file")
	vassert(seed2 == seed, "C06: seed does not round-trip through the fail file")
	vassert(len(buf2) == len(buf), "C06: bitstream length does not round-trip through the fail file")
	for i := 0; i < len(buf) && i < len(buf2); i++ {
		vassert(buf2[i] == buf[i], "C06: bitstream does not round-trip through the fail file")
	}
	// the file is found by the discovery pattern of the same test name
	ok, _ := filepath.Match(filepath.Join(dir, failFilePattern(name)), filename)
	vassert(ok, "C06: the fail file name does not match the discovery pattern of its test")
}

// H_C06_roundtripLong: a long counterexample (600 words, about 11 KB of data lines: several refills
// of the scanner's buffer), the first, a middle and the last word symbolic.
func H_C06_roundtripLong() {
	vfsReset()
	seed := nondetU64("seed")
	n := 600
	buf := make([]uint64, n)
	for i := range buf {
		buf[i] = uint64(i+1) * 0x9E3779B97F4A7C15 >> uint(i%61)
	}
	buf[0], buf[n/2], buf[n-1] = nondetU64("first"), nondetU64("middle"), nondetU64("last")
	output := []byte("some output\n")
	if choose("bigOutput", 2) == 1 {
		output = []byte(strings.Repeat("a line of captured output\n", 300))
	}
	name := "TestLong"
	_, filename := failFileName(name)
	dir := scratchDir()
	defer scratchDone(dir)
	filename = filepath.Join(dir, filename)
	err := saveFailFile(filename, rapidVersion, output, seed, buf)
	vassert(err == nil, "C06: saveFailFile failed on a healthy file system")
	version, seed2, buf2, err2 := loadFailFile(filename)
	vassert(err2 == nil, "C06: a fail file that was just saved cannot be loaded (persisted failure would be ignored)")
	if err2 != nil {
		return
	}
	reach("loaded")
	vassert(version == rapidVersion, "C06: version does not round-trip through the fail file")
	vassert(seed2 == seed, "C06: seed does not round-trip through the fail file")
	vassert(len(buf2) == len(buf), "C06: bitstream length does not round-trip through the fail file")
	for i := 0; i < len(buf) && i < len(buf2); i++ {
		vassert(buf2[i] == buf[i], "C06: bitstream does not round-trip through the fail file")
	}
}

var testNames = []string{"TestFoo", "Test/sub", "Тест", "a b", "CON", "com1", "x*y?[z]", "..", "t\\u", "日本/語", ""}

func failTestName() string {
	n := 3
	if thorough() {
		n = len(testNames)
	}
	return testNames[choose("name", n)]
}

// ---- two-run history: fail -> file -> rerun (C06), unusable files (C17), flaky fail file (C09) ----

// streamProp reads one raw word; fails / skips / passes on its two low bits, and records on
// which kind of stream it ran.
type streamProp struct {
	words    []uint64
	outcomes []int
	random   []bool // invocation ran on a PRNG stream (false: buffer replay)
}

func (d *streamProp) prop(t *T) {
	_, isRandom := t.s.(*randomBitStream)
	w := t.s.drawBits(64)
	d.random = append(d.random, isRandom)
	d.words = append(d.words, w)
	switch w & 3 {
	case 3:
		d.outcomes = append(d.outcomes, 2)
		t.Fatalf("fail")
	case 1:
		d.outcomes = append(d.outcomes, 1)
		t.Skip("skip")
	default:
		d.outcomes = append(d.outcomes, 0)
	}
}

func countFiles(pattern string) []string {
	names, _ := vfsGlob(pattern)
	return names
}

// H_C06_rerun: a failing Check leaves exactly one fail file encoding the final test case, and
// the next Check of the same test replays it first and fails "after 0 tests" with the same draws.
func H_C06_rerun() {
	vfsReset()
	flags.checks = 1
	flags.shrinkTime = 0
	flags.nofailfile = choose("nofailfile", 2) == 1
	flags.seed = 0
	name := failTestName()

	d1 := &streamProp{}
	tb1 := newVTB(name)
	runIsolated(func() { checkTB(tb1, farDeadline(), d1.prop) })
	failed1 := len(tb1.errorfs) == 1 && strings.Contains(tb1.errorfs[0], "failed after")
	files := countFiles(failFilePattern(name))
	if !failed1 {
		reach("run1-not-failed")
		vassert(len(files) == 0, "C06: a fail file was written although Check did not report a falsification")
		return
	}
	reach("run1-failed")
	finalWord := d1.words[len(d1.words)-1] // the final replay
	if flags.nofailfile {
		reach("nofailfile")
		vassert(len(vfs.files) == 0, "C06: -rapid.nofailfile was given but a file was written")
		return
	}
	vassert(len(files) == 1, "C06: a failed Check must leave exactly one fail file matching the test's discovery pattern")
	vassert(len(vfs.files) == 1, "C06: saving the fail file left other files behind")
	if len(files) != 1 {
		return
	}
	_, _, buf, err := loadFailFile(files[0])
	vassert(err == nil && len(buf) == 1 && buf[0] == finalWord, "C06: the fail file does not encode the test case presented as the final counterexample")

	// second run: no flag
	flags.nofailfile = false
	d2 := &streamProp{}
	tb2 := newVTB(name)
	runIsolated(func() { checkTB(tb2, farDeadline(), d2.prop) })
	vassert(len(d2.words) >= 1 && !d2.random[0], "C06: the next Check did not replay the fail file before any random test case")
	vassert(len(d2.words) >= 1 && d2.words[0] == finalWord, "C06: the replayed fail file gives different draws than the recorded failure")
	vassert(len(tb2.errorfs) == 1 && strings.Contains(tb2.errorfs[0], "failed after 0 tests"), "C06: the next Check did not fail 'after 0 tests' on the persisted failure")
	for i := range d2.random {
		vassert(!d2.random[i], "C09: a fresh random test case was generated although the fail file already falsified the property")
	}
	vassert(len(countFiles(failFilePattern(name))) == 1, "C06: replaying a fail file wrote another fail file")
}

// unusable fail files
func unusableFile(k int, word uint64) (content string, unreadable bool) {
	switch k {
	case 0:
		return "", false // empty
	case 1:
		return "# only a comment\n#\n", false
	case 2:
		return "\x00\xff garbage \x01\n\n", false
	case 3:
		return rapidVersion + "#notanumber\n0x1", false
	case 4:
		return rapidVersion + "#1#2\n0x1", false
	case 5:
		return "v0.0.1#5\n0x3", false // other version, would fail if replayed
	case 6:
		return rapidVersion + "#7\n0x2", false // valid: now passes (word&3 == 2)
	case 7:
		return rapidVersion + "#7", false // valid version, no data: replay overruns (invalid)
	case 8:
		return rapidVersion + "#7\n0x1ffffffffffffffffffff", false // number too large
	case 9:
		return rapidVersion + "#", false // truncated
	case 10:
		return rapidVersion + "#7\n0x1\n0x", false // truncated word
	case 11:
		return rapidVersion + "#7\n0x1", false // valid: skipped when replayed (word&3 == 1)
	case 12:
		return "#7\n0x3", false // missing version
	case 13:
		return rapidVersion + "#-1\n0x3", false // negative seed
	case 14:
		return rapidVersion + "#7\n0x3", true // would fail, but cannot be opened
	case 15:
		return rapidVersion + "0#7\n0x3", false // version with the current one as a strict prefix; would fail if replayed
	case 16:
		return rapidVersion + "-rc1#7\n0x3", false
	case 17:
		return rapidVersion[:len(rapidVersion)-1] + "#7\n0x3", false // strict prefix of the current version
	case 18:
		return rapidVersion + "#7\n2", false // one-character data line (word 2: passes when replayed)
	}
	// 19.. : every truncation of a valid file whose full form would pass when replayed
	valid := rapidVersion + "#7\n0x2\n0x12"
	n := k - 19
	if n > len(valid) {
		n = len(valid)
	}
	return valid[:n], false
}

var nUnusable = 19 + len(rapidVersion+"#7\n0x2\n0x12") + 1

// H_C17_ignored: unusable fail files are ignored and change neither schedule nor verdict.
func H_C17_ignored() {
	seed := nondetU64("seed")
	flags.shrinkTime = 0
	name := "TestFoo"
	run := func(nfiles int) (*streamProp, *vTB, []any) {
		vfsReset()
		dir, _ := failFileName(name)
		_ = vfsMkdirAll(dir, 0775)
		for i := 0; i < nfiles; i++ {
			content, unreadable := unusableFile(choose("file"+itoa(i), nUnusable), 0)
			p := filepath.Join(dir, kindaSafeFilename(name)+"-2026-"+itoa(i)+".fail")
			vfs.files[p] = content
			if unreadable {
				vfs.failOpen[p] = true
			}
		}
		d := &streamProp{}
		tb := newVTB(name)
		valid, invalid, early, s, failfile, buf, err1, err2 := doCheck(tb, farDeadline(), 2, seed, "", true, d.prop)
		return d, tb, []any{valid, invalid, early, s, failfile, len(buf), err1 != nil, err2 != nil, errorString(err1), errorString(err2)}
	}
	nfiles := 1
	if thorough() {
		nfiles = 1 + choose("nfiles", 2)
	}
	dA, tbA, resA := run(nfiles)
	dB, _, resB := run(0)
	vassert(len(tbA.errorfs) == 0 && len(tbA.fatalfs) == 0 && !tbA.failed && tbA.failNow == 0, "C17: an unusable fail file failed the test")
	for i := range resA {
		vassert(resA[i] == resB[i], "C17: an unusable fail file changed the verdict of the run")
	}
	// the random test cases are the same: strip the leading buffer replays
	var ra []uint64
	for i := range dA.words {
		if dA.random[i] {
			ra = append(ra, dA.words[i])
		}
	}
	var rb []uint64
	for i := range dB.words {
		if dB.random[i] {
			rb = append(rb, dB.words[i])
		}
	}
	vassert(len(ra) == len(rb), "C17: an unusable fail file changed which random test cases were run")
	for i := 0; i < len(ra) && i < len(rb); i++ {
		vassert(ra[i] == rb[i], "C17: an unusable fail file changed which random test cases were run")
	}
	reach("compared")
}

// H_C17_loadTotal: loadFailFile returns an error or a result for every malformed shape; never panics.
func H_C17_loadTotal() {
	vfsReset()
	k := choose("shape", nUnusable)
	content, unreadable := unusableFile(k, 0)
	vfs.files["f.fail"] = content
	if unreadable {
		vfs.failOpen["f.fail"] = true
	}
	version, _, buf, err := loadFailFile("f.fail")
	if err != nil {
		reach("error")
		vassert(version == "" && buf == nil, "C17: loadFailFile returns data together with an error")
	} else {
		reach("loaded")
	}
	// checkFailFile never fails the test for these shapes (none of them falsifies the property)
	d := &streamProp{}
	tb := newVTB("T")
	b2, e1, e2 := checkFailFile(tb, "f.fail", d.prop)
	vassert(b2 == nil && e1 == nil && e2 == nil, "C17: an unusable fail file is not ignored by checkFailFile")
	vassert(!tb.failed, "C17: an unusable fail file failed the test")
}

// H_C09_failfileFlaky: once a replayed fail file falsified the property, no fresh random test case runs.
func H_C09_failfileFlaky() {
	vfsReset()
	name := "TestFoo"
	dir, _ := failFileName(name)
	_ = vfsMkdirAll(dir, 0775)
	vfs.files[filepath.Join(dir, kindaSafeFilename(name)+"-2026-1.fail")] = rapidVersion + "#7\n0x7"
	o := &outcomeProp{}
	tb := newVTB(name)
	flags.checks = 1
	flags.shrinkTime = 0
	flags.nofailfile = true
	exited := runIsolated(func() { checkTB(tb, farDeadline(), o.prop) })
	if o.fails > 0 {
		reach("falsified")
		vassert(len(tb.errorfs) == 1, "C02: a falsified test case did not fail the test")
		vassert(exited && tb.failNow == 1, "C09: a failed Check must stop the enclosing test (FailNow)")
	}
	if nondetFirstFailed(o) {
		reach("failfile-falsified")
		vassert(o.calls <= 3, "C09: fresh test cases were generated after the fail file falsified the property")
	}
}

func nondetFirstFailed(o *outcomeProp) bool { return o.calls >= 1 && o.firstOutcome == 2 }

// H_C16_crash: killing the process at any file-system step of saveFailFile leaves only complete
// fail files under discoverable names.
func H_C16_crash() {
	seed := nondetU64("seed")
	buf := symSlice("buf", 2)
	var lines []string
	nlines := choose("nlines", 3)
	for i := 0; i < nlines; i++ {
		lines = append(lines, []string{"", "log line", "# x", "0x1"}[choose("line"+itoa(i), 4)])
	}
	output := []byte(strings.Join(lines, "\n"))
	name := failTestName()
	dirName, filename := failFileName(name)
	preexisting := choose("dirExists", 2) == 1

	setup := func() {
		vfsReset()
		if preexisting {
			_ = vfsMkdirAll(dirName, 0775)
			vfs.step = 0
		}
	}
	// reference: the uninterrupted save
	setup()
	err := saveFailFile(filename, rapidVersion, output, seed, buf)
	vassert(err == nil, "C16: saveFailFile failed on a healthy file system")
	ref, ok := vfs.files[filename]
	vassert(ok && len(vfs.files) == 1, "C16: an uninterrupted save must leave exactly the fail file")
	K := vfs.step

	// the same save, killed in front of step c (or in the middle of a write)
	setup()
	vfs.crashAt = choose("crashAt", K)
	vfs.partial = choose("partial", 4)
	crashed := runUntilCrash(func() { _ = saveFailFile(filename, rapidVersion, output, seed, buf) })
	vassert(crashed, "C16: the crash point was not reached")
	reach("crashed")
	for _, p := range vfs.paths() {
		content := vfs.files[p]
		discoverable, _ := filepath.Match(failFilePattern(name), p)
		if discoverable || p == filename {
			reach("final-name-visible")
			vassert(content == ref, "C16: a file a later run would pick up is incomplete or differs from the uninterrupted save")
		} else {
			reach("temp-visible")
			vassert(strings.HasPrefix(filepath.Base(p), "."), "C16: partial data is visible under a name that is not a hidden temporary name")
			vassert(filepath.Dir(p) == filepath.Dir(filename), "C16: the temporary file is not in the directory of the fail file (rename would not be atomic)")
			for _, other := range testNames {
				m, _ := filepath.Match(failFilePattern(other), p)
				vassert(!m, "C16: a temporary file matches the fail file discovery pattern of some test")
			}
		}
	}
}
