package rapid

// C06 / C16 / C17: fail files.

import (
	"path/filepath"
	"strings"
)

// representative captured-output lines: every length class around the 64 KiB token limit of
// bufio.Scanner, and contents that look like comments, data lines, version fields, blanks, CRs.
func sampleLine(k int) string {
	rep := func(unit string, n int) string {
		if n == 0 {
			return ""
		}
		return strings.Repeat(unit, n/len(unit)+1)[:n]
	}
	switch k {
	case 0:
		return ""
	case 1:
		return "x"
	case 2:
		return "# not a comment of ours"
	case 3:
		return "v0.4.8#1"
	case 4:
		return "0x10\r"
	case 5:
		return "   "
	case 6:
		return rep("y", 65533)
	case 7:
		return rep("#", 65534)
	case 8:
		return rep("z ", 65535)
	default:
		return rep("0x1 ", 70000)
	}
}

const nSampleLines = 10

func symOutput() []byte {
	maxLines := 2
	if thorough() {
		maxLines = 3
	}
	nlines := choose("nlines", maxLines+1)
	var lines []string
	for i := 0; i < nlines; i++ {
		lines = append(lines, sampleLine(choose("line"+itoa(i), nSampleLines)))
	}
	out := strings.Join(lines, "\n")
	if nlines > 0 && choose("trailingNL", 2) == 1 {
		out += "\n"
	}
	return []byte(out)
}

// H_C06_roundtrip: what saveFailFile writes, loadFailFile reads back exactly.
func H_C06_roundtrip() {
	vfsReset()
	seed := nondetU64("seed")
	buf := symSlice("buf", 2)
	output := symOutput()
	name := "TestFoo"
	_, filename := failFileName(name)
	dir := scratchDir()
	defer scratchDone(dir)
	filename = filepath.Join(dir, filename)
	err := saveFailFile(filename, rapidVersion, output, seed, buf)
	vassert(err == nil, "C06: saveFailFile failed on a healthy file system")
	version, seed2, buf2, err2 := loadFailFile(filename)
	vassert(err2 == nil, "C06: a fail file that was just saved cannot be loaded (persisted failure would be ignored)")
	if err2 != nil {
		return
	}
	reach("loaded")
	vassert(version == rapidVersion, "C06: version does not round-trip through the fail file")
	vassert(seed2 == seed, "C06: seed does not round-trip through the fail file")
	vassert(len(buf2) == len(buf), "C06: bitstream length does not round-trip through the fail file")
	for i := 0; i < len(buf) && i < len(buf2); i++ {
		vassert(buf2[i] == buf[i], "C06: bitstream does not round-trip through the fail file")
	}
	// the file is found by the discovery pattern of the same test name
	ok, _ := filepath.Match(filepath.Join(dir, failFilePattern(name)), filename)
	vassert(ok, "C06: the fail file name does not match the discovery pattern of its test")
}

var testNames = []string{"TestFoo", "Test/sub", "Тест", "a b", "CON", "com1", "x*y?[z]", "..", "t\\u", "日本/語", ""}

func failTestName() string {
	n := 3
	if thorough() {
		n = len(testNames)
	}
	return testNames[choose("name", n)]
}
