package rapid

// C06 / C16 / C17: fail files.

import (
	"path/filepath"
	"strings"
)

// representative captured-output lines: every length class around the 64 KiB token limit of
// bufio.Scanner, and contents that look like comments, data lines, version fields, blanks, CRs.
func sampleLine(k int) string {
	rep := func(unit string, n int) string {
		if n == 0 {
			return ""
		}
		return strings.Repeat(unit, n/len(unit)+1)[:n]
	}
	switch k {
	case 0:
		return ""
	case 1:
		return "x"
	case 2:
		return "# not a comment of ours"
	case 3:
		return "v0.4.8#1"
	case 4:
		return "0x10\r"
	case 5:
		return "   "
	case 6:
		return rep("y", 65533)
	case 7:
		return rep("#", 65534)
	case 8:
		return rep("z ", 65535)
	default:
		return rep("0x1 ", 70000)
	}
}

const nSampleLines = 10

func symOutput() []byte {
	maxLines := 2
	if thorough() {
		maxLines = 3
	}
	nlines := choose("nlines", maxLines+1)
	var lines []string
	for i := 0; i < nlines; i++ {
		lines = append(lines, sampleLine(choose("line"+itoa(i), nSampleLines)))
	}
	out := strings.Join(lines, "\n")
	if nlines > 0 && choose("trailingNL", 2) == 1 {
		out += "\n"
	}
	return []byte(out)
}

var testNames = []string{"TestFoo", "Test/sub", "Тест", "a b", "CON", "com1", "x*y?[z]", "..", "t\\u", "日本/語", ""}

func failTestName() string {
	n := 3
	if thorough() {
		n = len(testNames)
	}
	return testNames[choose("name", n)]
}

// ---- two-run history: fail -> file -> rerun (C06), unusable files (C17), flaky fail file (C09) ----

// streamProp reads one raw word; fails / skips / passes on its two low bits, and records on
// which kind of stream it ran.
type streamProp struct {
	words    []uint64
	outcomes []int
	random   []bool // invocation ran on a PRNG stream (false: buffer replay)
}

func (d *streamProp) prop(t *T) {
	_, isRandom := t.s.(*randomBitStream)
	w := t.s.drawBits(64)
	d.random = append(d.random, isRandom)
	d.words = append(d.words, w)
	switch w & 3 {
	case 3:
		d.outcomes = append(d.outcomes, 2)
		t.Fatalf("fail")
	case 1:
		d.outcomes = append(d.outcomes, 1)
		t.Skip("skip")
	default:
		d.outcomes = append(d.outcomes, 0)
	}
}

func countFiles(pattern string) []string {
	names, _ := vfsGlob(pattern)
	return names
}

// H_C06_rerun: a failing Check leaves exactly one fail file encoding the final test case, and
// the next Check of the same test replays it first and fails "after 0 tests" with the same draws.
func H_C06_rerun() {
	vfsReset()
	tickingTimestamps(true) // file names carry a timestamp: a second may pass between any two of them
	flags.checks = 1
	flags.shrinkTime = 0
	flags.nofailfile = choose("nofailfile", 2) == 1
	flags.seed = 0
	name := failTestName()

	d1 := &streamProp{}
	tb1 := newVTB(name)
	runIsolated(func() { checkTB(tb1, farDeadline(), d1.prop) })
	failed1 := len(tb1.errorfs) == 1 && strings.Contains(tb1.errorfs[0], "failed after")
	files := countFiles(failFilePattern(name))
	if !failed1 {
		reach("run1-not-failed")
		vassert(len(files) == 0, "C06: a fail file was written although Check did not report a falsification")
		return
	}
	reach("run1-failed")
	finalWord := d1.words[len(d1.words)-1] // the final replay
	if flags.nofailfile {
		reach("nofailfile")
		vassert(len(vfs.files) == 0, "C06: -rapid.nofailfile was given but a file was written")
		return
	}
	vassert(len(files) == 1, "C06: a failed Check must leave exactly one fail file matching the test's discovery pattern")
	vassert(len(vfs.files) == 1, "C06: saving the fail file left other files behind")
	if len(files) != 1 {
		return
	}
	_, _, buf, err := loadFailFile(files[0])
	vassert(err == nil && len(buf) == 1 && buf[0] == finalWord, "C06: the fail file does not encode the test case presented as the final counterexample")

	// second run: no flag
	flags.nofailfile = false
	d2 := &streamProp{}
	tb2 := newVTB(name)
	runIsolated(func() { checkTB(tb2, farDeadline(), d2.prop) })
	vassert(len(d2.words) >= 1 && !d2.random[0], "C06: the next Check did not replay the fail file before any random test case")
	vassert(len(d2.words) >= 1 && d2.words[0] == finalWord, "C06: the replayed fail file gives different draws than the recorded failure")
	vassert(len(tb2.errorfs) == 1 && strings.Contains(tb2.errorfs[0], "failed after 0 tests"), "C06: the next Check did not fail 'after 0 tests' on the persisted failure")
	for i := range d2.random {
		vassert(!d2.random[i], "C09: a fresh random test case was generated although the fail file already falsified the property")
	}
	vassert(len(countFiles(failFilePattern(name))) == 1, "C06: replaying a fail file wrote another fail file")
}

// unusable fail files
func unusableFile(k int, word uint64) (content string, unreadable bool) {
	switch k {
	case 0:
		return "", false // empty
	case 1:
		return "# only a comment\n#\n", false
	case 2:
		return "\x00\xff garbage \x01\n\n", false
	case 3:
		return rapidVersion + "#notanumber\n0x1", false
	case 4:
		return rapidVersion + "#1#2\n0x1", false
	case 5:
		return "v0.0.1#5\n0x3", false // other version, would fail if replayed
	case 6:
		return rapidVersion + "#7\n0x2", false // valid: now passes (word&3 == 2)
	case 7:
		return rapidVersion + "#7", false // valid version, no data: replay overruns (invalid)
	case 8:
		return rapidVersion + "#7\n0x1ffffffffffffffffffff", false // number too large
	case 9:
		return rapidVersion + "#", false // truncated
	case 10:
		return rapidVersion + "#7\n0x1\n0x", false // truncated word
	case 11:
		return rapidVersion + "#7\n0x1", false // valid: skipped when replayed (word&3 == 1)
	case 12:
		return "#7\n0x3", false // missing version
	case 13:
		return rapidVersion + "#-1\n0x3", false // negative seed
	case 14:
		return rapidVersion + "#7\n0x3", true // would fail, but cannot be opened
	case 15:
		return rapidVersion + "0#7\n0x3", false // version with the current one as a strict prefix; would fail if replayed
	case 16:
		return rapidVersion + "-rc1#7\n0x3", false
	case 17:
		return rapidVersion[:len(rapidVersion)-1] + "#7\n0x3", false // strict prefix of the current version
	case 18:
		return rapidVersion + "#7\n2", false // one-character data line (word 2: passes when replayed)
	}
	// 19.. : every truncation of a valid file whose full form would pass when replayed
	valid := rapidVersion + "#7\n0x2\n0x12"
	n := k - 19
	if n > len(valid) {
		n = len(valid)
	}
	return valid[:n], false
}

var nUnusable = 19 + len(rapidVersion+"#7\n0x2\n0x12") + 1

// H_C17_ignored: unusable fail files are ignored and change neither schedule nor verdict.
func H_C17_ignored() {
	seed := nondetU64("seed")
	flags.shrinkTime = 0
	name := "TestFoo"
	run := func(nfiles int) (*streamProp, *vTB, []any) {
		vfsReset()
		dir, _ := failFileName(name)
		_ = vfsMkdirAll(dir, 0775)
		for i := 0; i < nfiles; i++ {
			k := 0
			if i == 0 {
				k = choose("file0", nUnusable)
			} else {
				// a second file: six representative shapes (empty, other version, now passing, now
				// invalid, now skipped, unreadable); every shape is covered as first file
				k = []int{0, 5, 6, 7, 11, 14}[choose("file"+itoa(i), 6)]
			}
			content, unreadable := unusableFile(k, 0)
			p := filepath.Join(dir, kindaSafeFilename(name)+"-2026-"+itoa(i)+".fail")
			vfs.files[p] = content
			if unreadable {
				vfs.failOpen[p] = true
			}
		}
		d := &streamProp{}
		tb := newVTB(name)
		valid, invalid, early, s, failfile, buf, err1, err2 := doCheck(tb, farDeadline(), 2, seed, "", true, d.prop)
		return d, tb, []any{valid, invalid, early, s, failfile, len(buf), err1 != nil, err2 != nil, errorString(err1), errorString(err2)}
	}
	nfiles := 1
	if thorough() {
		nfiles = 1 + choose("nfiles", 2)
	}
	dA, tbA, resA := run(nfiles)
	dB, _, resB := run(0)
	vassert(len(tbA.errorfs) == 0 && len(tbA.fatalfs) == 0 && !tbA.failed && tbA.failNow == 0, "C17: an unusable fail file failed the test")
	for i := range resA {
		vassert(resA[i] == resB[i], "C17: an unusable fail file changed the verdict of the run")
	}
	// the random test cases are the same: strip the leading buffer replays
	var ra []uint64
	for i := range dA.words {
		if dA.random[i] {
			ra = append(ra, dA.words[i])
		}
	}
	var rb []uint64
	for i := range dB.words {
		if dB.random[i] {
			rb = append(rb, dB.words[i])
		}
	}
	vassert(len(ra) == len(rb), "C17: an unusable fail file changed which random test cases were run")
	for i := 0; i < len(ra) && i < len(rb); i++ {
		vassert(ra[i] == rb[i], "C17: an unusable fail file changed which random test cases were run")
	}
	reach("compared")
}

// H_C09_failfileFlaky: once a replayed fail file falsified the property, no fresh random test case runs.
func H_C09_failfileFlaky() {
	vfsReset()
	name := "TestFoo"
	dir, _ := failFileName(name)
	_ = vfsMkdirAll(dir, 0775)
	vfs.files[filepath.Join(dir, kindaSafeFilename(name)+"-2026-1.fail")] = rapidVersion + "#7\n0x7"
	o := &outcomeProp{}
	tb := newVTB(name)
	flags.checks = 1
	flags.shrinkTime = 0
	flags.nofailfile = true
	exited := runIsolated(func() { checkTB(tb, farDeadline(), o.prop) })
	if o.fails > 0 {
		reach("falsified")
		vassert(len(tb.errorfs) == 1, "C02: a falsified test case did not fail the test")
		vassert(exited && tb.failNow == 1, "C09: a failed Check must stop the enclosing test (FailNow)")
	}
	if nondetFirstFailed(o) {
		reach("failfile-falsified")
		vassert(o.calls <= 3, "C09: fresh test cases were generated after the fail file falsified the property")
	}
}

func nondetFirstFailed(o *outcomeProp) bool { return o.calls >= 1 && o.firstOutcome == 2 }

// H_C17_mixed: unusable fail files next to a usable one (same seed, the unusable ones sorted
// first) change nothing: the usable file is still replayed and fails the test "after 0 tests".
func H_C17_mixed() {
	seed := nondetU64("seed")
	flags.shrinkTime = 0
	name := "TestFoo"
	run := func(nfiles int) (*streamProp, []any) {
		vfsReset()
		dir, _ := failFileName(name)
		_ = vfsMkdirAll(dir, 0775)
		for i := 0; i < nfiles; i++ {
			content, unreadable := unusableFile(choose("file"+itoa(i), nUnusable), 0)
			p := filepath.Join(dir, kindaSafeFilename(name)+"-2026-"+itoa(i)+".fail")
			vfs.files[p] = content
			if unreadable {
				vfs.failOpen[p] = true
			}
		}
		vfs.files[filepath.Join(dir, kindaSafeFilename(name)+"-2026-9.fail")] = rapidVersion + "#7\n0x3" // usable: fails when replayed
		d := &streamProp{}
		tb := newVTB(name)
		valid, invalid, early, s, failfile, buf, err1, err2 := doCheck(tb, farDeadline(), 2, seed, "", true, d.prop)
		return d, []any{valid, invalid, early, s, failfile, len(buf), err1 != nil, err2 != nil, errorString(err1), errorString(err2)}
	}
	nfiles := 1
	if thorough() {
		nfiles = 1 + choose("nfiles", 2)
	}
	dA, resA := run(nfiles)
	dB, resB := run(0)
	vassert(resB[6] == true && resB[0] == 0 && resB[1] == 0, "C06: a usable fail file was not replayed first")
	for i := range resA {
		vassert(resA[i] == resB[i], "C17: an unusable fail file next to a usable one changed the verdict of the run")
	}
	for i := range dA.random {
		vassert(!dA.random[i], "C09: a random test case ran although a fail file falsified the property")
	}
	_ = dB
	reach("compared")
}

// wideProp draws two words and passes; recProp below it is the failing sibling Check of the same test.
type wideProp struct{ calls int }

func (w *wideProp) prop(t *T) {
	w.calls++
	_ = t.s.drawBits(64)
	_ = t.s.drawBits(64)
}

// H_C06_twoChecks: a test that calls Check twice. The second Check's persisted failure (one word)
// is an invalid test case for the first Check's property (which draws two): on the next run the
// first Check must leave the file alone, and the second must still replay it first.
func H_C06_twoChecks() {
	vfsReset()
	flags.checks = 1
	flags.shrinkTime = 0
	flags.nofailfile = false
	flags.seed = 0
	name := "TestTwo"
	// first run of the test: Check A passes, Check B fails and persists its failure
	a1 := &wideProp{}
	runIsolated(func() { checkTB(newVTB(name), farDeadline(), a1.prop) })
	b1 := &streamProp{}
	tbB1 := newVTB(name)
	runIsolated(func() { checkTB(tbB1, farDeadline(), b1.prop) })
	if !(len(tbB1.errorfs) == 1 && strings.Contains(tbB1.errorfs[0], "failed after")) {
		reach("b-not-failed")
		return
	}
	reach("b-failed")
	files := countFiles(failFilePattern(name))
	vassert(len(files) == 1, "C06: a failed Check must leave exactly one fail file matching the test's discovery pattern")
	finalWord := b1.words[len(b1.words)-1]
	// second run of the test
	a2 := &wideProp{}
	tbA2 := newVTB(name)
	runIsolated(func() { checkTB(tbA2, farDeadline(), a2.prop) })
	vassert(len(tbA2.errorfs) == 0, "C17: a fail file that is invalid for this property failed the test")
	vassert(len(countFiles(failFilePattern(name))) == 1, "C06: a Check removed the persisted failure of another Check of the same test")
	b2 := &streamProp{}
	tbB2 := newVTB(name)
	runIsolated(func() { checkTB(tbB2, farDeadline(), b2.prop) })
	vassert(len(b2.words) >= 1 && !b2.random[0] && b2.words[0] == finalWord, "C06: the next Check did not replay the fail file before any random test case")
	vassert(len(tbB2.errorfs) == 1 && strings.Contains(tbB2.errorfs[0], "failed after 0 tests"), "C06: the next Check did not fail 'after 0 tests' on the persisted failure")
}

// zeroTailProp draws two words and fails iff the second is zero.
type zeroTailProp struct {
	firstStreamWasBuffer bool
	calls                int
	failedCalls          int
	firstFailed          bool
}

func (z *zeroTailProp) prop(t *T) {
	z.calls++
	if z.calls == 1 {
		_, isRandom := t.s.(*randomBitStream)
		z.firstStreamWasBuffer = !isRandom
	}
	_ = t.s.drawBits(64)
	if t.s.drawBits(64) == 0 {
		z.failedCalls++
		if z.calls == 1 {
			z.firstFailed = true
		}
		t.Fatalf("second word is zero")
	}
}

// H_C17_shortFile: a fail file that has become too short for the property (the test gained a
// draw, or the file lost its tail) is an unusable file: it is ignored, it is never completed with
// made-up data, and whatever Check reports afterwards is a test case that really fails.
func H_C17_shortFile() {
	vfsReset()
	flags.checks = 1
	flags.shrinkTime = 0
	flags.nofailfile = true
	flags.seed = 0
	name := "TestShort"
	dir, _ := failFileName(name)
	_ = vfsMkdirAll(dir, 0775)
	vfs.files[filepath.Join(dir, kindaSafeFilename(name)+"-2026-1.fail")] = rapidVersion + "#7\n0x5" // one word only
	z := &zeroTailProp{}
	tb := newVTB(name)
	runIsolated(func() { checkTB(tb, farDeadline(), z.prop) })
	vassert(z.firstStreamWasBuffer, "C06: a discoverable fail file was not tried first")
	if len(tb.errorfs) == 0 {
		reach("ignored-and-passed")
		vassert(z.failedCalls == 0, "C02: a test case falsified the property but Check did not fail the test")
		return
	}
	reach("reported")
	// the first invocation is the replay of the short file: it runs out of data, it cannot fail
	vassert(!z.firstFailed, "C17: a fail file that is too short for the property was completed with made-up data and reported as the failure")
	vassert(z.failedCalls > 0, "C01: Check reports a falsification although no executed test case falsified the property")
}
