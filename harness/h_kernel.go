package rapid

// L-KERNEL / C03: integer kernels respect their range on every bitstream.

// spanClass restricts the bit length of a span in the quick tier to a set of
// representative classes (all 65 in the thorough tier). The classes include every
// length at which genUintNBiased changes behaviour (0,1, 8/9: m leaves its floor,
// 55..64: overflow thresholds).
func spanClass(span uint64) {
	if thorough() {
		return
	}
	n := 0
	for x := span; x != 0; x >>= 1 {
		n++
	}
	assume(n <= 2 || n == 8 || n == 9 || n == 17 || n == 32 || n == 33 || n == 55 || n == 56 || n == 57 || n == 59 || n == 60 || n == 61 || n == 63 || n == 64)
}

func streamLen(name string, quick, deep int) int {
	if thorough() {
		return choose(name, deep+1)
	}
	return choose(name, quick+1)
}

func H_C03_uintRange() {
	min, max := nondetU64("min"), nondetU64("max")
	assume(min <= max)
	spanClass(max - min)
	bias := nondetBool("bias")
	L := streamLen("L", 2, 3)
	s := newBufBitStream(symWords("w", L), false)
	var v uint64
	p := catch(func() { v, _, _ = genUintRange(s, min, max, bias) })
	if p != nil {
		vassert(isInvalid(p), "C03: genUintRange panicked with something other than invalid data")
		reach("overrun")
		return
	}
	vassert(min <= v && v <= max, "C03: genUintRange value out of range")
	reach("returned")
}
