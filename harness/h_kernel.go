package rapid

// L-KERNEL / C03: integer kernels respect their range on every bitstream.

func H_C03_uintRange() {
	min, max := nondetU64("min"), nondetU64("max")
	assume(min <= max)
	spanClass(max - min)
	bias := nondetBool("bias")
	L := streamLen("L", 2, 3)
	s := newBufBitStream(symWords("w", L), false)
	var v uint64
	p := catch(func() { v, _, _ = genUintRange(s, min, max, bias) })
	if p != nil {
		vassert(isInvalid(p), "C03: genUintRange panicked with something other than invalid data")
		reach("overrun")
		return
	}
	vassert(min <= v && v <= max, "C03: genUintRange value out of range")
	reach("returned")
}
