package rapid

// L-KERNEL / C03: integer kernels respect their range on every bitstream.

// spanClass restricts the bit length of a span in the quick tier to a set of
// representative classes (all 65 in the thorough tier). The classes include every
// length at which genUintNBiased changes behaviour (0,1, 8/9: m leaves its floor,
// 55..64: overflow thresholds).
func spanClass(span uint64) {
	if thorough() {
		return
	}
	assume(lenIn(span, 0, 1, 2, 8, 9, 17, 32, 33, 55, 56, 57, 59, 60, 61, 63, 64))
}

// lenIn reports (as one symbolic condition, without forking) whether the bit length of x is
// one of the listed values.
func lenIn(x uint64, lens ...int) bool {
	ok := false
	for _, n := range lens {
		var c bool
		switch {
		case n == 0:
			c = x == 0
		case n == 64:
			c = x >= 1<<63
		default:
			c = bAnd(x >= uint64(1)<<uint(n-1), x < uint64(1)<<uint(n))
		}
		ok = bOr(ok, c)
	}
	return ok
}

func streamLen(name string, quick, deep int) int {
	if thorough() {
		return choose(name, deep+1)
	}
	return choose(name, quick+1)
}

func H_C03_uintRange() {
	min, max := nondetU64("min"), nondetU64("max")
	assume(min <= max)
	spanClass(max - min)
	bias := nondetBool("bias")
	L := streamLen("L", 2, 3)
	s := newBufBitStream(symWords("w", L), false)
	var v uint64
	p := catch(func() { v, _, _ = genUintRange(s, min, max, bias) })
	if p != nil {
		vassert(isInvalid(p), "C03: genUintRange panicked with something other than invalid data")
		reach("overrun")
		return
	}
	vassert(min <= v && v <= max, "C03: genUintRange value out of range")
	reach("returned")
}
