package rapid

import "time"

// C09 / C07: findBug's loop and checkTB's verdict.

// outcomeProp is a property whose i-th invocation passes, skips or fails as the solver chooses.
type outcomeProp struct {
	calls   int
	passes  int
	skips   int
	fails   int
	after   int // invocations after the first failing one
	firstOutcome int
}

func (o *outcomeProp) prop(t *T) {
	o.calls++
	if o.fails > 0 {
		o.after++
	}
	out := 2
	switch nondetU8("o" + itoa(o.calls)) {
	case 0:
		out = 0
	case 1:
		out = 1
	}
	if o.calls == 1 {
		o.firstOutcome = out
	}
	switch out {
	case 0:
		o.passes++
	case 1:
		o.skips++
		t.Skip("skip")
	default:
		o.fails++
		t.Fatalf("fail")
	}
}

func farDeadline() time.Time { return time.Now().Add(24 * time.Hour) }

// H_C09_findBug: bounded unrolling of the real loop for small N and every outcome sequence.
func H_C09_findBug() {
	maxN := 2
	if thorough() {
		maxN = 3
	}
	checks := choose("N", maxN+2) - 1 // -1 .. maxN
	o := &outcomeProp{}
	tb := newVTB("C")
	valid, invalid, early, seed, err := findBug(tb, farDeadline(), checks, 12345, o.prop)
	vassert(!early, "C09: early exit although the deadline is far away")
	vassert(o.calls == valid+invalid+o.fails, "C09: property invocations do not add up to valid+invalid(+1 failing)")
	vassert(valid == o.passes && invalid == o.skips, "C09: valid/invalid counters do not match what the invocations did")
	vassert(o.after == 0, "C09: the property was invoked again after the first falsified test case")
	if o.fails > 0 {
		reach("failed")
		vassert(err != nil && !err.isInvalidData(), "C02: a falsified test case did not make findBug return a failure")
		vassert(seed != 0, "C07: no seed reported for the failing test case")
	} else {
		reach("no-failure")
		vassert(err == nil, "C09: findBug reports a failure although no invocation failed")
		n := checks
		if n < 0 {
			n = 0
		}
		vassert(valid == n || invalid >= checks*invalidChecksMult, "C09: findBug stopped before N valid test cases or 10*N skipped ones")
		vassert(valid <= n, "C09: more than N valid test cases were run")
		if valid == n {
			reach("enough")
		} else {
			reach("budget")
			vassert(invalid == checks*invalidChecksMult, "C09: the skipped-case budget is not exactly 10*N")
		}
	}
}

// H_C09_verdict: checkTB's verdict for small N.
func H_C09_verdict() {
	N := 1 + choose("N", 2)
	flags.checks = N
	flags.nofailfile = true
	flags.shrinkTime = 0
	o := &outcomeProp{}
	tb := newVTB("V")
	exited := runIsolated(func() { checkTB(tb, farDeadline(), o.prop) })
	if o.fails > 0 {
		reach("falsified")
		vassert(len(tb.errorfs) == 1, "C02: a falsified test case did not fail the test (exactly one Errorf expected)")
		vassert(exited && tb.failNow == 1, "C09: a failed Check must stop the enclosing test (FailNow)")
		return
	}
	if o.passes == N {
		reach("passed")
		vassert(len(tb.errorfs) == 0 && !tb.failed && !exited, "C09: N valid test cases passed but the test was failed")
		vassert(tb.logsContain("OK, passed"), "C09: passing Check does not log the OK line")
		vassert(o.calls == o.passes+o.skips, "C09: extra property invocations after passing")
	} else {
		reach("only-generated")
		vassert(len(tb.errorfs) == 1 && tb.failed, "C09: fewer than N valid test cases must fail the test with the 'only generated' error")
		vassert(exited && tb.failNow == 1, "C09: a failed Check must stop the enclosing test (FailNow)")
	}
}
