package rapid

// C09 / C07: findBug's loop and checkTB's verdict.

// H_C09_findBug: bounded unrolling of the real loop for small N and every outcome sequence.
func H_C09_findBug() {
	maxN := 2
	if thorough() {
		maxN = 3
	}
	checks := choose("N", maxN+2) - 1 // -1 .. maxN
	o := &outcomeProp{}
	tb := newVTB("C")
	valid, invalid, early, seed, err := findBug(tb, farDeadline(), checks, 12345, o.prop)
	vassert(!early, "C09: early exit although the deadline is far away")
	vassert(o.calls == valid+invalid+o.fails, "C09: property invocations do not add up to valid+invalid(+1 failing)")
	vassert(valid == o.passes && invalid == o.skips, "C09: valid/invalid counters do not match what the invocations did")
	vassert(o.after == 0, "C09: the property was invoked again after the first falsified test case")
	if o.fails > 0 {
		reach("failed")
		vassert(err != nil && !err.isInvalidData(), "C02: a falsified test case did not make findBug return a failure")
		vassert(seed != 0, "C07: no seed reported for the failing test case")
	} else {
		reach("no-failure")
		vassert(err == nil, "C09: findBug reports a failure although no invocation failed")
		n := checks
		if n < 0 {
			n = 0
		}
		vassert(valid == n || invalid >= checks*invalidChecksMult, "C09: findBug stopped before N valid test cases or 10*N skipped ones")
		vassert(valid <= n, "C09: more than N valid test cases were run")
		if valid == n {
			reach("enough")
		} else {
			reach("budget")
			vassert(invalid == checks*invalidChecksMult, "C09: the skipped-case budget is not exactly 10*N")
		}
	}
}

// H_C09_verdict: checkTB's verdict for small N.
func H_C09_verdict() {
	N := 1 + choose("N", 2)
	flags.checks = N
	flags.nofailfile = true
	flags.shrinkTime = 0
	o := &outcomeProp{}
	tb := newVTB("V")
	exited := runIsolated(func() { checkTB(tb, farDeadline(), o.prop) })
	if o.fails > 0 {
		reach("falsified")
		vassert(len(tb.errorfs) == 1, "C02: a falsified test case did not fail the test (exactly one Errorf expected)")
		vassert(exited && tb.failNow == 1, "C09: a failed Check must stop the enclosing test (FailNow)")
		return
	}
	if o.passes == N {
		reach("passed")
		vassert(len(tb.errorfs) == 0 && !tb.failed && !exited, "C09: N valid test cases passed but the test was failed")
		vassert(tb.logsContain("OK, passed"), "C09: passing Check does not log the OK line")
		vassert(o.calls == o.passes+o.skips, "C09: extra property invocations after passing")
	} else {
		reach("only-generated")
		vassert(len(tb.errorfs) == 1 && tb.failed, "C09: fewer than N valid test cases must fail the test with the 'only generated' error")
		vassert(exited && tb.failNow == 1, "C09: a failed Check must stop the enclosing test (FailNow)")
	}
}

// H_C09_findBugStep: ONE iteration of the real findBug loop from an ARBITRARY loop state
// satisfying the invariant (loop cut-point): covers every N and every position in the run.
//
//	invariant  0 <= valid <= max(N,0), 0 <= invalid <= max(10N,0)
//	step       pass => valid+1, skip => invalid+1, exactly one property invocation, the
//	           invariant holds again; a falsified case returns at once with the counters unchanged
//	exit       findBug returns without error only with valid == N or invalid == 10N
//
// Natively (replay) the loop runs from its real initial state: the property first passes
// `valid` times and skips `invalid` times and then does the step's outcome.
func H_C09_findBugStep() {
	checks := nondetInt("checks")
	assume(bAnd(checks >= -2, checks <= 1<<32)) // stated bound: 10*N must not overflow int
	outcome := choose("outcome", 3)             // this iteration: 0 pass, 1 skip, 2 fail
	// clock 0: the deadline is a day away; clock 1: symbolic clock - the early-exit estimate may
	// trip at any point, but a test case that was run and falsified the property is never dropped
	clock := 0
	if cutActive() {
		clock = choose("clock", 2)
		symClock(clock == 1)
	}
	v0, i0 := nondetInt("valid0"), nondetInt("invalid0")
	seed0 := nondetU64("seed")
	inv := func(v, i int) bool {
		maxV, maxI := 0, 0
		if checks > 0 {
			maxV, maxI = checks, checks*invalidChecksMult
		}
		return bAnd(bAnd(v >= 0, v <= maxV), bAnd(i >= 0, i <= maxI))
	}
	assume(inv(v0, i0))
	calls, stepCalls := 0, 0
	var word uint64
	prop := func(t *T) {
		calls++
		if !cutActive() {
			// native replay: drive the real loop into the state (v0, i0) first
			if calls <= v0 {
				return
			}
			if calls <= v0+i0 {
				t.Skip("skip")
			}
		}
		stepCalls++
		word = t.s.drawBits(64)
		switch outcome {
		case 1:
			t.Skip("skip")
		case 2:
			t.Fatalf("fail")
		}
	}
	stepDone := false
	cutLoop("findBug", func() {
		assume(bAnd(loopVarInt("valid") == v0, loopVarInt("invalid") == i0))
		assume(bAnd(loopVarI64("total") >= 0, loopVarI64("total") <= 1000000000)) // far from the deadline
	}, func() {
		stepDone = true
		v1, i1 := loopVarInt("valid"), loopVarInt("invalid")
		vassert(stepCalls == 1, "C09: an iteration of findBug does not invoke the property exactly once")
		switch outcome {
		case 0:
			vassert(bAnd(v1 == v0+1, i1 == i0), "C09: a passing test case is not counted as exactly one valid case")
		case 1:
			vassert(bAnd(v1 == v0, i1 == i0+1), "C09: a skipped test case is not counted as exactly one invalid case")
		default:
			vassert(false, "C09: findBug went on after a falsified test case")
		}
		vassert(inv(v1, i1), "C09: findBug's counters leave their range (more than N valid or 10*N skipped cases)")
		reach("iterated")
	})
	if !cutActive() && v0+i0 > 200000 {
		return // too long to drive natively
	}
	valid, invalid, early, seed, err := findBug(newVTB("S"), farDeadline(), checks, seed0, prop)
	if clock == 1 {
		vassert(!(stepCalls == 1 && outcome == 2 && err == nil), "C02: a test case that falsified the property was dropped (early exit near the deadline)")
		if early {
			reach("early-exit")
			return
		}
	}
	vassert(!early, "C09: findBug stops early (and Check then passes with fewer than N test cases) although the deadline is a day away")
	if early {
		return
	}
	if err != nil {
		reach("failed")
		vassert(!err.isInvalidData(), "C09: findBug returned invalid data as its error")
		vassert(outcome == 2 && stepCalls == 1, "C09: findBug reports a failure although the test case did not fail")
		vassert(valid == v0 && invalid == i0, "C09: a falsified test case changed the valid/invalid counters")
		fresh := newRandomBitStream(seed, false)
		vassert(fresh.drawBits(64) == word, "C07: the reported seed does not regenerate the failing test case")
		return
	}
	// the loop was left (or never entered) without a failure
	reach("exited")
	if cutActive() {
		vassert(stepCalls == 0, "C09: findBug returned without failure in the middle of an iteration")
		vassert(valid == v0 && invalid == i0, "C09: findBug's results are not its counters")
	}
	if checks > 0 {
		vassert(valid == checks || invalid == checks*invalidChecksMult, "C09: findBug stopped before N valid test cases or 10*N skipped ones")
	} else {
		vassert(valid == 0 && invalid == 0, "C09: findBug ran test cases although N <= 0")
	}
	_ = stepDone
}

// H_C07_streamState: findBug reuses one stream and one T for all generated test cases. One
// iteration from an ARBITRARY state of everything they carry over (loop cut-point: counters of
// the stream's recorder and of the T are havocked): when the test case fails, a FRESH stream
// seeded with the reported seed hands the same property the same values - the test case is a
// function of its seed only, not of the test cases that ran before it.
func H_C07_streamState() {
	seed0 := nondetU64("seed")
	var got []uint64
	prop := func(t *T) {
		got = nil
		sl := SliceOfN(Bool(), 0, 2).Draw(t, "sl")
		got = append(got, uint64(len(sl)))
		for _, b := range sl {
			got = append(got, b2u(b))
		}
		w := t.s.drawBits(64)
		got = append(got, w)
		if w&1 == 1 {
			t.Fatalf("fail")
		}
	}
	cutLoop("findBug", func() {
		assume(bAnd(loopVarInt("valid") >= 0, loopVarInt("valid") < 1000))
		assume(bAnd(loopVarInt("invalid") >= 0, loopVarInt("invalid") < 1000))
		assume(bAnd(loopVarI64("total") >= 0, loopVarI64("total") <= 1000000000))
		r := loopFrameValue("*pgregory.net/rapid.randomBitStream").(*randomBitStream)
		r.dataLen = nondetInt("carried.dataLen")
		assume(bAnd(r.dataLen >= 0, r.dataLen < 1<<40)) // far from integer overflow: at most 2^40 words drawn so far
		t := loopFrameValue("*pgregory.net/rapid.T").(*T)
		t.draws = nondetInt("carried.draws")
		assume(t.draws >= 0)
	}, func() {
		reach("iterated")
	})
	if !cutActive() {
		// replay without the cut: drive the real loop through a long generation history (400
		// passing test cases that draw 200 words each) before the first test case that may fail
		calls := 0
		inner := prop
		prop = func(t *T) {
			calls++
			for i := 0; i < 200; i++ {
				_ = t.s.drawBits(64)
			}
			if calls <= 400 {
				_ = SliceOfN(Bool(), 0, 2).Draw(t, "sl")
				return
			}
			inner(t)
		}
		orig := prop
		_, _, _, seed, err := findBug(newVTB("S"), farDeadline(), 2000, seed0, orig)
		if err == nil {
			return
		}
		first := append([]uint64(nil), got...)
		calls = 400 // the fresh stream runs the (possibly) failing shape of the property
		err2 := checkOnce(newT(newVTB("R"), newRandomBitStream(seed, false), false, nil), orig)
		vassert(err2 != nil && !err2.isInvalidData(), "C07: the reported seed does not reproduce the failure on a fresh stream")
		same := len(got) == len(first)
		for i := 0; same && i < len(got); i++ {
			same = got[i] == first[i]
		}
		vassert(same, "C07: a test case depends on state carried over from earlier test cases (a fresh stream with the reported seed gives different draws)")
		return
	}
	_, _, _, seed, err := findBug(newVTB("S"), farDeadline(), 1000, seed0, prop)
	if err == nil {
		return
	}
	reach("failed")
	first := append([]uint64(nil), got...)
	err2 := checkOnce(newT(newVTB("R"), newRandomBitStream(seed, false), false, nil), prop)
	vassert(err2 != nil && !err2.isInvalidData(), "C07: the reported seed does not reproduce the failure on a fresh stream")
	vassert(len(got) == len(first), "C07: a test case depends on state carried over from earlier test cases (a fresh stream with the reported seed gives different draws)")
	for i := 0; i < len(got) && i < len(first); i++ {
		vassert(got[i] == first[i], "C07: a test case depends on state carried over from earlier test cases (a fresh stream with the reported seed gives different draws)")
	}
}
