package rapid

import "strings"

// C07: the reported seed reproduces the failing test case; a fixed seed fixes the run.

// dataProp is a deterministic function of its draws: it reads one 64-bit word and
// passes / skips / fails depending on its two low bits.
type dataProp struct {
	words    []uint64
	outcomes []int
}

func (d *dataProp) prop(t *T) {
	w := Uint64().Draw(t, "w")
	d.words = append(d.words, w)
	switch w & 3 {
	case 0:
		d.outcomes = append(d.outcomes, 2)
		t.Fatalf("fail")
	case 1:
		d.outcomes = append(d.outcomes, 1)
		t.Skip("skip")
	default:
		d.outcomes = append(d.outcomes, 0)
	}
}

// rawProp reads the first PRNG word directly.
type rawProp struct {
	words    []uint64
	outcomes []int // 0 pass, 1 skip, 2 fail
}

func (d *rawProp) prop(t *T) {
	w := t.s.drawBits(64)
	d.words = append(d.words, w)
	switch w & 3 {
	case 0:
		d.outcomes = append(d.outcomes, 2)
		t.Fatalf("fail")
	case 1:
		d.outcomes = append(d.outcomes, 1)
		t.Skip("skip")
	default:
		d.outcomes = append(d.outcomes, 0)
	}
}

func H_C07_seedSchedule() {
	seed0 := nondetU64("seed")
	checks := 2
	if thorough() {
		checks = 3
	}
	d := &rawProp{}
	tb := newVTB("S")
	valid, invalid, _, seed, err := findBug(tb, farDeadline(), checks, seed0, d.prop)
	iter := valid + invalid
	if err == nil {
		reach("no-failure")
		return
	}
	reach("failed")
	// the failing test case is number iter (0-based); its seed is seed0 + 0 + 1 + ... + iter
	vassert(seed == seed0+uint64(iter*(iter+1)/2), "C07: the reported seed is not the seed of the failing test case")
	vassert(seed == seedOfCase(seed0, iter), "C07: the reported seed is not the seed of the failing test case")
	// observational: a fresh PRNG stream from the reported seed hands out the failing case's first word
	fresh := newRandomBitStream(seed, false)
	vassert(fresh.drawBits(64) == d.words[len(d.words)-1], "C07: the reported seed does not regenerate the failing test case")
	// re-running with that seed fails on the very first test case
	d2 := &rawProp{}
	v2, i2, _, seed2, err2 := findBug(newVTB("S2"), farDeadline(), checks, seed, d2.prop)
	vassert(err2 != nil && v2 == 0 && i2 == 0, "C07: with -rapid.seed=<reported seed> the first test case must be the failing one (after 0 tests)")
	vassert(seed2 == seed, "C07: re-running the reported seed reports a different seed")
	vassert(len(d2.words) == 1 && d2.words[0] == d.words[len(d.words)-1], "C07: re-running the reported seed draws different values")
}

func H_C07_plumbing() {
	s := nondetU64("flagseed")
	assume(s != 0)
	// history: the process already asked for base seeds before the flag was set (a package-level
	// Example(), an earlier Check) - the flag still decides, verbatim, every time
	flags.seed = 0
	for k := choose("earlier", 3); k > 0; k-- {
		_ = baseSeed()
	}
	flags.seed = s
	vassert(baseSeed() == s, "C07: -rapid.seed is not used as the base seed")
	vassert(baseSeed() == s, "C07: -rapid.seed is not used as the base seed by a second Check in the same process")
	flags.checks = 1
	flags.nofailfile = true
	flags.shrinkTime = 0
	d := &rawProp{}
	tb := newVTB("P")
	runIsolated(func() { checkTB(tb, farDeadline(), d.prop) })
	// the first test case draws from the PRNG seeded with exactly the flag value
	fresh := newRandomBitStream(s, false)
	vassert(len(d.words) >= 1 && d.words[0] == fresh.drawBits(64), "C07: the first test case is not generated from -rapid.seed")
	// ... and so does the first test case of a second Check run afterwards in the same process
	d2 := &rawProp{}
	runIsolated(func() { checkTB(newVTB("P2"), farDeadline(), d2.prop) })
	fresh2 := newRandomBitStream(s, false)
	vassert(len(d2.words) >= 1 && d2.words[0] == fresh2.drawBits(64), "C07: a second Check under the same -rapid.seed does not start from that seed (the run depends on what ran before)")
	if len(tb.errorfs) == 1 && strings.Contains(tb.errorfs[0], "failed after") {
		reach("failed")
		iter := 0
		for d.outcomes[iter] != 2 {
			iter++
		}
		if exp := seedOfCase(s, iter); exp != 0 { // a seed that wraps to 0 means "no seed" and is not printed
			vassert(strings.Contains(tb.errorfs[0], "-rapid.seed="+symKey(exp)), "C07: the failure message does not print the seed of the failing test case")
		}
		if iter == 0 {
			vassert(strings.Contains(tb.errorfs[0], "failed after 0 tests"), "C07: the first test case failed but the message does not say 'after 0 tests'")
		}
	} else {
		reach("not-failed")
	}
}

// H_C07_determinism: two runs of doCheck with the same fixed seed see the same test cases.
func H_C07_determinism() {
	s := nondetU64("seed")
	flags.shrinkTime = 0
	run := func(name string) (*rawProp, int, int, uint64, []uint64) {
		d := &rawProp{}
		valid, invalid, _, seed, _, buf, _, _ := doCheck(newVTB(name), farDeadline(), 2, s, "", false, d.prop)
		return d, valid, invalid, seed, buf
	}
	d1, v1, i1, s1, b1 := run("R1")
	d2, v2, i2, s2, b2 := run("R2")
	vassert(v1 == v2 && i1 == i2 && s1 == s2, "C07: two runs with the same seed give different counts or report different seeds")
	vassert(len(d1.words) == len(d2.words), "C07: two runs with the same seed run a different number of test cases")
	for i := 0; i < len(d1.words) && i < len(d2.words); i++ {
		vassert(d1.words[i] == d2.words[i], "C07: two runs with the same seed draw different values")
	}
	vassert(len(b1) == len(b2), "C07: two runs with the same seed report different counterexamples")
	for i := 0; i < len(b1) && i < len(b2); i++ {
		vassert(b1[i] == b2[i], "C07: two runs with the same seed report different counterexamples")
	}
	if s1 != 0 {
		reach("failed")
	} else {
		reach("passed")
	}
}
