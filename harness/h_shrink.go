package rapid

import "time"

// C05 / C01: the shrinker only moves to smaller buffers that still fail at the same site.

// refShortlex is the reference order: length first, then lexicographic.
func refShortlex(a, b []uint64) int {
	if len(a) != len(b) {
		if len(a) < len(b) {
			return -1
		}
		return 1
	}
	r := 0
	for i := len(a) - 1; i >= 0; i-- {
		if a[i] < b[i] {
			r = -1
		} else if a[i] > b[i] {
			r = 1
		}
	}
	return r
}

func H_C05_compareData() {
	a := symSlice("a", 3)
	b := symSlice("b", 3)
	c := symSlice("c", 3)
	ab, ba := compareData(a, b), compareData(b, a)
	vassert(ab == refShortlex(a, b), "C05: compareData is not the length-then-lexicographic order")
	vassert(ab == -ba, "C05: compareData is not antisymmetric")
	vassert(compareData(a, a) == 0, "C05: compareData is not reflexive-zero")
	bc, ac := compareData(b, c), compareData(a, c)
	vassert(bImplies(bAnd(ab < 0, bc < 0), ac < 0), "C05: compareData is not transitive")
	vassert(bImplies(bAnd(ab == 0, bc < 0), ac < 0), "C05: compareData is not transitive")
	if ab == 0 {
		reach("equal")
		vassert(len(a) == len(b), "C05: compareData calls buffers of different length equal")
		for i := range a {
			vassert(a[i] == b[i], "C05: compareData calls different buffers equal")
		}
	}
	reach("compared")
}

var alphaShrink = []uint8{opReturn, opDrawBool, opErrorf, opFatalA, opFatalB, opHelperA, opHelperB, opFatalIfBit, opPanicVal, opSkip, opPanicStr, opNilDeref, opNilDerefB, opDeepA, opDeepB, opIfBit}
var alphaShrinkDeep = []uint8{opReturn, opDrawBool, opDrawSmall, opErrorf, opFatalA, opFatalB, opFatalIfBit, opFatalVal, opSkip, opPanicStr, opNilDeref, opNilDerefB, opDeepA, opDeepB, opIfBit}

// H_C05_accept: one step of the real shrinker.accept from any state a run can produce.
func H_C05_accept() {
	alpha := alphaShrink
	if thorough() {
		alpha = alphaShrinkDeep
	}
	acceptStep(alpha)
}

var alphaShrinkCallbacks = []uint8{opReturn, opDrawBool, opIfBit, opErrorf, opFatalA, opSkip, opCleanupFailA, opCleanupFailB}

// H_C05_acceptCallbacks: the same step for properties whose failures are raised inside cleanup
// functions (two different cleanup functions = two failure sites).
func H_C05_acceptCallbacks() { acceptStep(alphaShrinkCallbacks) }

func acceptStep(alpha []uint8) {
	k := 4
	L := 3 // the thorough tier widens the alphabet, not the buffers (4-word buffers do not complete)
	p := newVProg("p", k, 0, alpha, nil)
	tb := newVTB("S")

	// pre-state: the recording of a failing run on an arbitrary buffer (what doCheck/accept hand to the shrinker)
	s0 := newBufBitStream(symSlice("d", L), true)
	err0 := checkOnce(newT(tb, s0, false, nil), p.prop)
	assume(err0 != nil)
	assume(!err0.isInvalidData())
	site0 := p.last().fatalAt
	rec := s0.recordedBits
	rec.prune()
	old := append([]uint64(nil), rec.data...)
	s := &shrinker{tb: tb, rec: rec, err: err0, prop: p.prop, tries: map[string]int{}, cache: map[string]struct{}{}}

	// the step starts from any point of a minimisation run: the counters a shrinker accumulates
	// over its history are arbitrary
	s.shrinks = nondetInt("history.shrinks")
	assume(bAnd(s.shrinks >= 0, s.shrinks < 1<<40))
	s.hits = nondetInt("history.hits")
	assume(bAnd(s.hits >= 0, s.hits < 1<<40))
	buf := symSlice("c", L)
	// what the candidate does on its own: does it fail, and at the same site?
	errC := checkOnce(newT(tb, newBufBitStream(append([]uint64(nil), buf...), false), false, nil), p.prop)
	sameSite := errC != nil && !errC.isInvalidData() && traceback(errC) == traceback(err0)
	smaller := compareData(buf, old) < 0
	var ok bool
	pv := catch(func() { ok = s.accept(buf, "lbl", "candidate") })
	if pv != nil {
		reach("panic-path")
		_, isErr := pv.(*testError)
		vassert(isErr, "C05: accept panicked with something other than the reproduction error")
		vassert(false, "C01: the shrinker treats a deterministic property as flaky (second run of an accepted candidate differed)")
		return
	}
	if !ok {
		reach("rejected")
		// completeness (needed by C12): minimisation can only reach the boundary if every smaller
		// candidate that still fails at the same site is taken, whatever its message says
		vassert(!(smaller && sameSite), "C12: the shrinker rejected a smaller candidate that fails at the same site")
		vassert(compareData(s.rec.data, old) == 0, "C05: a rejected candidate changed the current best buffer")
		vassert(traceback(s.err) == traceback(err0), "C05: a rejected candidate changed the current failure")
		// Inv also after a rejection: the current best still replays to the error it is reported with
		errR := checkOnce(newT(tb, newBufBitStream(s.rec.data, false), false, nil), p.prop)
		vassert(errR != nil && sameError(errR, s.err), "C01: after a rejected candidate the shrinker's buffer and its recorded failure no longer belong together")
		return
	}
	reach("accepted")
	vassert(compareData(s.rec.data, old) < 0, "C05: an accepted step is not strictly smaller in length-then-lexicographic order")
	vassert(compareData(s.rec.data, buf) <= 0, "C05: the recorded buffer is larger than the accepted candidate")
	vassert(traceback(s.err) == traceback(err0), "C05: minimization moved to a different failure site (traceback differs)")
	// Inv: the new state replays to the same error (C01: what is reported really fails)
	err3 := checkOnce(newT(tb, newBufBitStream(s.rec.data, false), false, nil), p.prop)
	vassert(err3 != nil && sameError(err3, s.err), "C01: the buffer kept by the shrinker does not reproduce the failure it is reported with")
	vassert(p.last().fatalAt == site0, "C05: minimization moved to a different failure site")
	// ... and it is still a falsification: a test case that is merely skipped/invalid at the same
	// place is not "the same failure"
	vassert(!s.err.isInvalidData() && p.last().signals > 0, "C01: the shrinker moved to a test case that does not falsify the property (it is only skipped / invalid)")
}

// varGroupProp draws two standalone groups with the same label whose length depends on their
// first bit (flag 0: two payload words, flag 1: one) and fails, always at the same site, iff
// one group is long and the other short - whichever comes first. It records the buffer of every
// invocation made on a recording buffer stream: in the shrinker that is the second run of
// accept(), i.e. a candidate that is being accepted.
type varGroupProp struct {
	accepted [][]uint64
}

func (v *varGroupProp) prop(t *T) {
	if bs, ok := t.s.(*bufBitStream); ok && bs.persist {
		v.accepted = append(v.accepted, append([]uint64(nil), bs.buf...))
	}
	var flags [2]uint64
	for k := 0; k < 2; k++ {
		g := t.s.beginGroup("w", true)
		flags[k] = t.s.drawBits(1)
		_ = t.s.drawBits(64)
		if flags[k] == 0 {
			_ = t.s.drawBits(64)
		}
		t.s.endGroup(g, false)
	}
	if flags[0] != flags[1] {
		t.Fatalf("one long and one short group")
	}
}

// H_C05_shrinkSteps: the real shrink() (all passes: removal, block minimisation, the expensive
// group passes incl. sorting) on a failing recording with two same-label groups of different
// length: every candidate it accepts is strictly smaller than the one before, and what it
// returns is not larger than what it was given.
func H_C05_shrinkSteps() {
	flags.debug, flags.debugvis = false, false
	pay := []uint64{0, 3, 1 << 40}
	orig := []uint64{0, pay[choose("a", 3)], pay[choose("b", 3)], 1, pay[choose("c", 3)]}
	if choose("order", 2) == 1 {
		orig = []uint64{1, orig[4], 0, orig[1], orig[2]}
	}
	v := &varGroupProp{}
	s := newBufBitStream(append([]uint64(nil), orig...), true)
	err := checkOnce(newT(nil, s, false, nil), v.prop)
	vassert(err != nil && !err.isInvalidData(), "C05: harness property did not fail on its original buffer")
	rec := s.recordedBits
	start := append([]uint64(nil), rec.data...)
	v.accepted = nil
	buf, err2 := shrink(nilTB{}, farDeadline(), rec, err, v.prop)
	prev := start
	for _, c := range v.accepted {
		vassert(compareData(c, prev) < 0, "C05: the shrinker accepted a candidate that is not strictly smaller than its current test case")
		prev = c
		reach("accepted-step")
	}
	vassert(compareData(buf, start) <= 0, "C05: shrink() returned a test case larger than the one it was given")
	vassert(err2 != nil && traceback(err2) == traceback(err), "C05: shrink() returned a different failure")
	reach("shrunk")
}

// H_C01_shrinkDeadline: the real shrink() cut short at ANY point. The clock is symbolic (every
// time.Now() is an arbitrary instant not earlier than the previous one), so the deadline may fall
// between any two readings - before the first candidate, between the two runs of one accept(),
// in the middle of a pass. The property draws two booleans and always fails at one site with a
// message that names the values it drew. Whatever shrink() returns must belong together: the
// returned buffer, replayed, fails with exactly the returned error (message included).
func H_C01_shrinkDeadline() {
	flags.debug, flags.debugvis = false, false
	symClock(true)
	prop := func(t *T) {
		a := Bool().Draw(t, "a")
		b := Bool().Draw(t, "b")
		// (the branches make the message a concrete string on every path: the executor does not
		// format symbolic values)
		msg := "failed with a=false"
		if a {
			msg = "failed with a=true"
		}
		if b {
			msg += " b=true"
		} else {
			msg += " b=false"
		}
		t.Fatalf("%s", msg)
	}
	s := newBufBitStream(symWords("w", 2), true)
	err := checkOnce(newT(nil, s, false, nil), prop)
	vassert(err != nil && !err.isInvalidData(), "C01: harness property did not fail")
	deadline := time.Now().Add(time.Duration(1 + choose("budget", 3)))
	buf, err2 := shrink(nilTB{}, deadline, s.recordedBits, err, prop)
	errR := checkOnce(newT(nil, newBufBitStream(append([]uint64(nil), buf...), false), false, nil), prop)
	vassert(errR != nil && err2 != nil && sameError(errR, err2), "C01: what the shrinker returns does not belong together: the buffer, replayed, fails differently from the failure it is reported with (minimisation cut short)")
	if time.Now().After(deadline) {
		reach("deadline-passed")
	}
	reach("returned")
}
