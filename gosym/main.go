// gosym: symbolic execution of the real code of pgregory.net/rapid from its go/ssa form.
//
// The package under /repo is loaded from the current working tree on every
// run (go/packages + Overlay injecting the harness files), built to SSA with
// generics instantiated, and the named harness functions are explored path by
// path; branch feasibility and assertions are decided by an SMT solver.
package main

import (
	"encoding/json"
	"flag"
	"fmt"
	"go/types"
	"os"
	"path/filepath"
	"runtime"
	"sort"
	"strings"
	"time"

	"golang.org/x/tools/go/packages"
	"golang.org/x/tools/go/ssa"
	"golang.org/x/tools/go/ssa/ssautil"

	"gosym/interp"
)

type output struct {
	Repo      string                  `json:"repo"`
	LoadSec   float64                 `json:"load_s"`
	Harnesses []*interp.HarnessResult `json:"harnesses"`
	Concrete  *concreteOut            `json:"concrete,omitempty"`
	Warnings  []string                `json:"warnings,omitempty"`
	Error     string                  `json:"error,omitempty"`
	FuncHash  map[string]string       `json:"function_hashes,omitempty"`
	Dropped   map[string]string       `json:"dropped_harness_files,omitempty"`
	Missing   map[string]string       `json:"missing_harnesses,omitempty"`
}

type concreteOut struct {
	Harness    string             `json:"harness"`
	End        string             `json:"end"`
	Msg        string             `json:"msg"`
	Violations []interp.Violation `json:"violations"`
	Observed   []string           `json:"observed"`
	Reached    []string           `json:"reached"`
}

func main() {
	repo := flag.String("repo", "/repo", "repository root (package pgregory.net/rapid)")
	hdir := flag.String("harness-dir", "/verif/harness", "directory with harness files (package rapid)")
	run := flag.String("run", "", "comma-separated harness function names (or prefix*)")
	workers := flag.Int("workers", runtime.NumCPU(), "parallel path workers")
	timeoutMs := flag.Int("timeout-ms", 20000, "per-query solver timeout")
	maxSteps := flag.Int("max-steps", 3_000_000, "SSA instruction budget per path (unwinding bound)")
	maxDec := flag.Int("max-decisions", 400, "symbolic decisions per path")
	maxPaths := flag.Int("max-paths", 200000, "path budget per harness")
	maxViol := flag.Int("max-violations", 0, "stop a harness after this many violations (0 = explore everything)")
	budget := flag.Duration("budget", 10*time.Minute, "wall-clock budget per harness")
	out := flag.String("out", "", "write JSON result here (default stdout)")
	solver := flag.String("solver", "z3-new -in", "solver command")
	concrete := flag.String("concrete", "", "JSON file name->value: run the single harness concretely with these nondet values")
	smtlog := flag.String("smtlog", "", "prefix for solver transcripts")
	batch := flag.String("concrete-batch", "", "JSON file [{harness, vals}]: run each concretely, print results")
	tier := flag.String("tier", "quick", "quick or thorough (visible to harnesses through thorough())")
	list := flag.Bool("list", false, "list harness functions and exit")
	flag.Parse()

	res := &output{Repo: *repo}
	emit := func() {
		b, _ := json.MarshalIndent(res, "", " ")
		if *out == "" {
			fmt.Println(string(b))
		} else {
			_ = os.WriteFile(*out, b, 0o644)
		}
	}

	t0 := time.Now()
	sh, mainPkg, err := load(*repo, *hdir)
	res.LoadSec = time.Since(t0).Seconds()
	if err != nil {
		res.Error = err.Error()
		emit()
		os.Exit(3)
	}

	var names []string
	all := []string{}
	for name, m := range mainPkg.Members {
		if _, ok := m.(*ssa.Function); ok && strings.HasPrefix(name, "H_") {
			all = append(all, name)
		}
	}
	sort.Strings(all)
	if *list {
		fmt.Println(strings.Join(all, "\n"))
		for f, why := range droppedFiles {
			fmt.Fprintf(os.Stderr, "DROPPED harness file %s: %s\n", f, why)
		}
		if len(droppedFiles) > 0 {
			os.Exit(4)
		}
		return
	}
	for _, pat := range strings.Split(*run, ",") {
		pat = strings.TrimSpace(pat)
		if pat == "" {
			continue
		}
		if strings.HasSuffix(pat, "*") {
			for _, n := range all {
				if strings.HasPrefix(n, strings.TrimSuffix(pat, "*")) {
					names = append(names, n)
				}
			}
		} else {
			names = append(names, pat)
		}
	}

	lim := interp.Limits{MaxSteps: *maxSteps, MaxDecisions: *maxDec}
	sh.Thorough = *tier == "thorough"
	if *batch != "" {
		type job struct {
			Harness string            `json:"harness"`
			Vals    map[string]uint64 `json:"vals"`
		}
		var jobs []job
		b, err := os.ReadFile(*batch)
		if err == nil {
			err = json.Unmarshal(b, &jobs)
		}
		if err != nil {
			res.Error = err.Error()
			emit()
			os.Exit(3)
		}
		var outs []*concreteOut
		for _, j := range jobs {
			if j.Vals == nil {
				j.Vals = map[string]uint64{}
			}
			pr := sh.RunPath(j.Harness, nil, nil, lim, j.Vals)
			outs = append(outs, &concreteOut{Harness: j.Harness, End: pr.End.String(), Msg: pr.Msg, Violations: pr.Violations, Observed: pr.Observed, Reached: pr.Reached})
		}
		bb, _ := json.MarshalIndent(outs, "", " ")
		if *out == "" {
			fmt.Println(string(bb))
		} else {
			_ = os.WriteFile(*out, bb, 0o644)
		}
		return
	}
	if *concrete != "" {
		vals := map[string]uint64{}
		b, err := os.ReadFile(*concrete)
		if err == nil {
			err = json.Unmarshal(b, &vals)
		}
		if err != nil || len(names) != 1 {
			res.Error = fmt.Sprintf("concrete mode needs one harness and a readable model: %v", err)
			emit()
			os.Exit(3)
		}
		pr := sh.RunPath(names[0], nil, nil, lim, vals)
		res.Concrete = &concreteOut{Harness: names[0], End: pr.End.String(), Msg: pr.Msg, Violations: pr.Violations, Observed: pr.Observed, Reached: pr.Reached}
		res.Warnings = sh.Warnings
		emit()
		return
	}

	res.Dropped = droppedFiles
	for _, n := range names {
		if mainPkg.Func(n) == nil {
			if res.Missing == nil {
				res.Missing = map[string]string{}
			}
			why := "no such harness function"
			for f, e := range droppedFiles {
				why = "its file " + f + " does not type-check against this tree: " + e
				if b, err := os.ReadFile(filepath.Join(*hdir, f)); err == nil && strings.Contains(string(b), "func "+n+"()") {
					break
				}
			}
			res.Missing[n] = why
			continue
		}
		cfg := interp.Config{
			Workers:         *workers,
			SolverArgv:      strings.Fields(*solver),
			TimeoutMs:       *timeoutMs,
			Lim:             lim,
			MaxPaths:        *maxPaths,
			MaxViolations:   *maxViol,
			Deadline:        time.Now().Add(*budget),
			SolverLogPrefix: *smtlog,
		}
		hr := sh.Explore(n, cfg)
		res.Harnesses = append(res.Harnesses, hr)
	}
	res.Warnings = sh.Warnings
	res.FuncHash = sh.FuncHashes(res.Harnesses)
	emit()
}

// droppedFiles: harness files excluded because they do not type-check against this tree -> first error.
var droppedFiles = map[string]string{}

func load(repo, hdir string) (*interp.Shared, *ssa.Package, error) {
	overlay := map[string][]byte{}
	entries, err := os.ReadDir(hdir)
	if err != nil {
		return nil, nil, err
	}
	for _, e := range entries {
		n := e.Name()
		if !strings.HasSuffix(n, ".go") || strings.HasSuffix(n, "_test.go") || strings.HasSuffix(n, "_native.go") {
			continue
		}
		b, err := os.ReadFile(filepath.Join(hdir, n))
		if err != nil {
			return nil, nil, err
		}
		overlay[filepath.Join(repo, "zz_verif_"+n)] = b
	}
	// Load, tolerating harness files that no longer type-check against this tree (an anchored
	// internal identifier was renamed or changed its signature): such files are dropped and
	// the load is retried, so that the remaining harnesses still run. A type error in the
	// repository itself, or in the harness API files, is fatal.
	var pkgs []*packages.Package
	for round := 0; ; round++ {
		cfg := &packages.Config{
			Mode:    packages.LoadAllSyntax,
			Dir:     repo,
			Overlay: overlay,
			Env:     append(os.Environ(), "GOFLAGS=-mod=mod", "GOPROXY=off", "GOSUMDB=off", "GOTOOLCHAIN=local"),
		}
		var err error
		pkgs, err = packages.Load(cfg, ".")
		if err != nil {
			return nil, nil, err
		}
		if len(pkgs) != 1 {
			return nil, nil, fmt.Errorf("expected one package, got %d", len(pkgs))
		}
		var errs []string
		bad := map[string]string{}
		fatal := false
		packages.Visit(pkgs, nil, func(p *packages.Package) {
			for _, e := range p.Errors {
				errs = append(errs, e.Error())
				file := e.Pos
				if k := strings.Index(file, ":"); k >= 0 {
					file = file[:k]
				}
				base := filepath.Base(file)
				if _, isHarness := overlay[file]; isHarness && strings.HasPrefix(base, "zz_verif_h_") {
					if _, seen := bad[file]; !seen {
						bad[file] = e.Error()
					}
				} else {
					fatal = true
				}
			}
		})
		if len(errs) == 0 {
			break
		}
		if fatal || len(bad) == 0 || round >= 8 {
			if len(errs) > 10 {
				errs = errs[:10]
			}
			return nil, nil, fmt.Errorf("package does not type-check with harness: %s", strings.Join(errs, "; "))
		}
		for f, why := range bad {
			delete(overlay, f)
			droppedFiles[strings.TrimPrefix(filepath.Base(f), "zz_verif_")] = why
		}
	}
	prog, spkgs := ssautil.AllPackages(pkgs, ssa.InstantiateGenerics|ssa.SanityCheckFunctions)
	prog.Build()
	mainPkg := spkgs[0]
	sizes := types.SizesFor("gc", "amd64")
	sh := interp.NewShared(prog, mainPkg, sizes)
	return sh, mainPkg, nil
}
