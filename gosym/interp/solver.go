package interp

// A long-lived SMT solver process driven over stdin/stdout (SMT-LIB2).

import (
	"bufio"
	"fmt"
	"io"
	"os/exec"
	"strconv"
	"strings"
	"time"
)

type SolverStats struct {
	Queries  int
	Sat      int
	Unsat    int
	Unknown  int
	Errors   int
	SolverNs int64
}

type Solver struct {
	cmd       *exec.Cmd
	in        io.WriteCloser
	out       *bufio.Reader
	defined   map[int]bool // term ids defined (or vars declared) in the current session
	Stats     SolverStats
	Log       io.Writer // optional transcript
	argv      []string
	dead      bool
	timeoutMs int
	poisoned  bool
}

// NewSolver starts argv (e.g. ["z3","-in"]).
func NewSolver(argv []string, timeoutMs int) (*Solver, error) {
	s := &Solver{argv: argv}
	if err := s.start(timeoutMs); err != nil {
		return nil, err
	}
	return s, nil
}

func (s *Solver) start(timeoutMs int) error {
	cmd := exec.Command(s.argv[0], s.argv[1:]...)
	in, err := cmd.StdinPipe()
	if err != nil {
		return err
	}
	out, err := cmd.StdoutPipe()
	if err != nil {
		return err
	}
	cmd.Stderr = nil
	if err := cmd.Start(); err != nil {
		return err
	}
	s.cmd, s.in, s.out = cmd, in, bufio.NewReaderSize(out, 1<<16)
	s.defined = map[int]bool{}
	s.dead = false
	s.timeoutMs = timeoutMs
	s.preamble()
	return nil
}

func (s *Solver) preamble() {
	if strings.Contains(s.argv[0], "z3") {
		s.send(fmt.Sprintf("(set-option :timeout %d)", s.timeoutMs))
	} else {
		s.send(fmt.Sprintf("(set-option :tlimit-per %d)", s.timeoutMs))
	}
}

func (s *Solver) send(line string) {
	if s.Log != nil {
		fmt.Fprintln(s.Log, line)
	}
	if _, err := io.WriteString(s.in, line+"\n"); err != nil {
		s.dead = true
	}
}

func (s *Solver) readLine() string {
	line, err := s.out.ReadString('\n')
	if err != nil {
		s.dead = true
		return "(error \"solver died\")"
	}
	line = strings.TrimSpace(line)
	if s.Log != nil {
		fmt.Fprintln(s.Log, "; -> "+line)
	}
	return line
}

// Reset clears all assertions and definitions.
func (s *Solver) Reset() {
	if s.dead {
		s.Close()
		_ = s.start(s.timeoutMs)
		return
	}
	s.send("(reset)")
	s.defined = map[int]bool{}
	s.preamble()
}

func (s *Solver) Close() {
	if s.cmd != nil {
		_ = s.in.Close()
		_ = s.cmd.Process.Kill()
		_, _ = s.cmd.Process.Wait()
		s.cmd = nil
	}
}

// define makes sure t (and everything below it) is known to the solver.
func (s *Solver) define(t *Term) {
	if s.defined[t.id] {
		return
	}
	// iterative post-order to avoid deep recursion
	type item struct {
		t *Term
		i int
	}
	stack := []item{{t, 0}}
	for len(stack) > 0 {
		top := &stack[len(stack)-1]
		if s.defined[top.t.id] {
			stack = stack[:len(stack)-1]
			continue
		}
		if top.i < len(top.t.args) {
			a := top.t.args[top.i]
			top.i++
			if !s.defined[a.id] {
				stack = append(stack, item{a, 0})
			}
			continue
		}
		tt := top.t
		switch tt.op {
		case "var":
			s.send(fmt.Sprintf("(declare-const |%s| %s)", tt.name, tt.sort))
		case "const":
		default:
			s.send(fmt.Sprintf("(define-fun t%d () %s %s)", tt.id, tt.sort, tt.body()))
		}
		s.defined[tt.id] = true
		stack = stack[:len(stack)-1]
	}
}

func (s *Solver) Assert(t *Term) {
	s.define(t)
	s.send("(assert " + t.ref() + ")")
}

type SatResult int

const (
	Unsat SatResult = iota
	Sat
	Unknown
)

func (r SatResult) String() string { return [...]string{"unsat", "sat", "unknown"}[r] }

func (s *Solver) readCheck() SatResult {
	for {
		line := s.readLine()
		switch {
		case line == "sat":
			s.Stats.Sat++
			return Sat
		case line == "unsat":
			s.Stats.Unsat++
			return Unsat
		case line == "unknown" || line == "timeout":
			s.Stats.Unknown++
			return Unknown
		case strings.HasPrefix(line, "(error"):
			s.Stats.Errors++
			if s.dead {
				s.Stats.Unknown++
				return Unknown
			}
			// keep reading: the answer to check-sat still follows, but it is not trustworthy
			s.poisoned = true
		case line == "":
		default:
			// unexpected chatter
		}
	}
}

// Check runs (check-sat) on the current assertion stack.
func (s *Solver) Check() SatResult {
	s.Stats.Queries++
	s.poisoned = false
	t0 := time.Now()
	s.send("(check-sat)")
	r := s.readCheck()
	s.Stats.SolverNs += time.Since(t0).Nanoseconds()
	if s.Log != nil {
		fmt.Fprintf(s.Log, "; time %d ms\n", time.Since(t0).Milliseconds())
	}
	if s.poisoned {
		return Unknown
	}
	return r
}

// CheckWith checks satisfiability of the stack plus extra, without keeping extra.
func (s *Solver) CheckWith(extra *Term) SatResult {
	s.define(extra)
	s.send("(push 1)")
	s.send("(assert " + extra.ref() + ")")
	r := s.Check()
	s.send("(pop 1)")
	return r
}

// CheckWithModel is CheckWith, and on sat also fetches values for vars.
func (s *Solver) CheckWithModel(extra *Term, vars []*Term) (SatResult, map[string]uint64) {
	if extra != nil {
		s.define(extra)
	}
	s.send("(push 1)")
	if extra != nil {
		s.send("(assert " + extra.ref() + ")")
	}
	r := s.Check()
	var m map[string]uint64
	if r == Sat {
		m = s.Model(vars)
	}
	s.send("(pop 1)")
	return r, m
}

// Model must be called right after a sat answer.
func (s *Solver) Model(vars []*Term) map[string]uint64 {
	m := map[string]uint64{}
	for _, v := range vars {
		if !s.defined[v.id] {
			m[v.name] = 0
			continue
		}
		req := v.ref()
		if v.sort.k == sFP {
			// ask for the IEEE bit pattern
			req = "(fp.to_ieee_bv " + v.ref() + ")"
		}
		s.send("(get-value (" + req + "))")
		line := s.readLine()
		// may span several lines; read until parens balance
		for strings.Count(line, "(") > strings.Count(line, ")") {
			line += " " + s.readLine()
		}
		m[v.name] = parseValue(line)
	}
	return m
}

// parseValue extracts the value from "((name value))".
func parseValue(line string) uint64 {
	line = strings.TrimSpace(line)
	line = strings.TrimSuffix(line, "))")
	idx := strings.LastIndexAny(line, " \t")
	tok := line
	if idx >= 0 {
		tok = line[idx+1:]
	}
	tok = strings.Trim(tok, "() ")
	switch {
	case tok == "true":
		return 1
	case tok == "false":
		return 0
	case strings.HasPrefix(tok, "#x"):
		v, _ := strconv.ParseUint(tok[2:], 16, 64)
		return v
	case strings.HasPrefix(tok, "#b"):
		v, _ := strconv.ParseUint(tok[2:], 2, 64)
		return v
	}
	// (_ bvN w)
	if i := strings.Index(line, "(_ bv"); i >= 0 {
		rest := line[i+5:]
		j := strings.IndexAny(rest, " )")
		v, _ := strconv.ParseUint(rest[:j], 10, 64)
		return v
	}
	return 0
}

// EvalBV must be called right after a sat answer; t must be defined.
func (s *Solver) EvalBV(t *Term) uint64 {
	s.send("(get-value (" + t.ref() + "))")
	line := s.readLine()
	for strings.Count(line, "(") > strings.Count(line, ")") {
		line += " " + s.readLine()
	}
	return parseValue(line)
}
