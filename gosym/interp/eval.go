package interp

// Native evaluation of terms, small-domain detection, and the monotone
// step-function summary used for float expressions the FP theory cannot
// express (math.Log1p in genGeom).

import (
	"fmt"
	"math"
	"math/rand"
	"strings"
	"sync"
)

// evalTerm evaluates t under env (var name -> bits). FP values are IEEE bit patterns.
// ok=false if t contains something that cannot be evaluated.
func evalTerm(t *Term, env map[string]uint64, subst map[int]uint64) (uint64, bool) {
	if v, ok := subst[t.id]; ok {
		return v, true
	}
	switch t.op {
	case "const":
		return t.val, true
	case "var":
		v, ok := env[t.name]
		return v & maskW(maxInt(t.sort.w, 1)), ok
	}
	args := make([]uint64, len(t.args))
	for k, a := range t.args {
		v, ok := evalTerm(a, env, subst)
		if !ok {
			return 0, false
		}
		args[k] = v
	}
	b2u := func(b bool) uint64 {
		if b {
			return 1
		}
		return 0
	}
	fl := func(k int) float64 {
		if t.args[k].sort.w == 32 {
			return float64(math.Float32frombits(uint32(args[k])))
		}
		return math.Float64frombits(args[k])
	}
	mkf := func(f float64) uint64 {
		if t.sort.w == 32 {
			return uint64(math.Float32bits(float32(f)))
		}
		return math.Float64bits(f)
	}
	w := t.sort.w
	op := t.op
	switch op {
	case "not":
		return 1 - args[0], true
	case "and":
		return args[0] & args[1], true
	case "or":
		return args[0] | args[1], true
	case "ite":
		if args[0] == 1 {
			return args[1], true
		}
		return args[2], true
	case "=":
		return b2u(args[0] == args[1]), true
	case "bvnot":
		return ^args[0] & maskW(w), true
	case "bvneg":
		return -args[0] & maskW(w), true
	case "concat":
		return (args[0]<<uint(t.args[1].sort.w) | args[1]) & maskW(w), true
	case "bvult":
		return b2u(args[0] < args[1]), true
	case "bvule":
		return b2u(args[0] <= args[1]), true
	case "bvugt":
		return b2u(args[0] > args[1]), true
	case "bvuge":
		return b2u(args[0] >= args[1]), true
	case "bvslt", "bvsle", "bvsgt", "bvsge":
		aw := t.args[0].sort.w
		x, y := sext(args[0], aw), sext(args[1], aw)
		switch op {
		case "bvslt":
			return b2u(x < y), true
		case "bvsle":
			return b2u(x <= y), true
		case "bvsgt":
			return b2u(x > y), true
		default:
			return b2u(x >= y), true
		}
	case "fp.eq":
		return b2u(fl(0) == fl(1)), true
	case "fp.lt":
		return b2u(fl(0) < fl(1)), true
	case "fp.leq":
		return b2u(fl(0) <= fl(1)), true
	case "fp.gt":
		return b2u(fl(0) > fl(1)), true
	case "fp.geq":
		return b2u(fl(0) >= fl(1)), true
	case "fp.isNaN":
		return b2u(fl(0) != fl(0)), true
	case "fp.neg":
		return mkf(-fl(0)), true
	case "fp.add RNE":
		return mkf(fl(0) + fl(1)), true
	case "fp.sub RNE":
		return mkf(fl(0) - fl(1)), true
	case "fp.mul RNE":
		return mkf(fl(0) * fl(1)), true
	case "fp.div RNE":
		return mkf(fl(0) / fl(1)), true
	case "native:log1p":
		return mkf(math.Log1p(fl(0))), true
	}
	if len(args) == 2 {
		if v, ok := foldBV(op, w, args[0], args[1]); ok {
			return v, true
		}
	}
	var a, b int
	switch {
	case scan(op, "(_ extract %d %d)", &a, &b):
		return (args[0] >> uint(b)) & maskW(a-b+1), true
	case scan(op, "(_ zero_extend %d)", &a):
		return args[0], true
	case scan(op, "(_ sign_extend %d)", &a):
		return uint64(sext(args[0], t.args[0].sort.w)) & maskW(w), true
	case scan(op, "(_ rotate_left %d)", &a):
		return (args[0]<<uint(a) | args[0]>>uint(w-a)) & maskW(w), true
	case strings.HasPrefix(op, "(_ to_fp_unsigned"):
		return mkf(float64(args[0])), true
	case strings.HasPrefix(op, "(_ to_fp ") && strings.HasSuffix(op, "RNE"):
		if t.args[0].sort.k == sFP {
			return mkf(fl(0)), true
		}
		return mkf(float64(sext(args[0], t.args[0].sort.w))), true
	case strings.HasPrefix(op, "(_ to_fp "):
		return args[0], true // reinterpretation of bits
	case strings.HasPrefix(op, "(_ fp.to_ubv"):
		f := fl(0)
		if f != f || f < 0 || f >= 18446744073709551616.0 {
			return 0, false // unspecified
		}
		return uint64(f) & maskW(w), true
	case strings.HasPrefix(op, "(_ fp.to_sbv"):
		f := fl(0)
		if f != f || f < -9223372036854775808.0 || f >= 9223372036854775808.0 {
			return 0, false
		}
		return uint64(int64(f)) & maskW(w), true
	}
	return 0, false
}

func scan(s, format string, args ...interface{}) bool {
	n, err := fmt.Sscanf(s, format, args...)
	return err == nil && n == len(args)
}

// smallDomain returns the finite set of values t can take if t is a tree of
// ite/extend/extract over constants, and ok=false otherwise.
func smallDomain(t *Term, limit int) ([]uint64, bool) {
	seen := map[uint64]bool{}
	var walk func(t *Term, f func(uint64) uint64) bool
	walk = func(t *Term, f func(uint64) uint64) bool {
		switch {
		case t.op == "const":
			seen[f(t.val)] = true
			return len(seen) <= limit
		case t.op == "ite":
			return walk(t.args[1], f) && walk(t.args[2], f)
		case strings.HasPrefix(t.op, "(_ zero_extend"):
			return walk(t.args[0], f)
		case strings.HasPrefix(t.op, "(_ sign_extend"):
			w0, w1 := t.args[0].sort.w, t.sort.w
			return walk(t.args[0], func(v uint64) uint64 { return f(uint64(sext(v, w0)) & maskW(w1)) })
		case strings.HasPrefix(t.op, "(_ extract"):
			var a, b int
			scan(t.op, "(_ extract %d %d)", &a, &b)
			return walk(t.args[0], func(v uint64) uint64 { return f((v >> uint(b)) & maskW(a-b+1)) })
		}
		return false
	}
	if !walk(t, func(v uint64) uint64 { return v }) {
		return nil, false
	}
	out := make([]uint64, 0, len(seen))
	for v := range seen {
		out = append(out, v)
	}
	return out, true
}

func containsNative(t *Term, memo map[int]bool) bool {
	if v, ok := memo[t.id]; ok {
		return v
	}
	r := strings.HasPrefix(t.op, "native:")
	for _, a := range t.args {
		if r {
			break
		}
		r = containsNative(a, memo)
	}
	memo[t.id] = r
	return r
}

// findIntRoot finds the unique integer sub-term x such that the float expression t
// depends on symbolic data only through to_fp_unsigned(x).
func findIntRoot(t *Term) (*Term, bool) {
	var root *Term
	ok := true
	seen := map[int]bool{}
	var walk func(t *Term)
	walk = func(t *Term) {
		if seen[t.id] || !ok {
			return
		}
		seen[t.id] = true
		if strings.HasPrefix(t.op, "(_ to_fp_unsigned") {
			if root != nil && root != t.args[0] {
				ok = false
			}
			root = t.args[0]
			return
		}
		if t.op == "var" {
			ok = false
			return
		}
		for _, a := range t.args {
			walk(a)
		}
	}
	walk(t)
	return root, ok && root != nil
}

// upperBound gives a syntactic upper bound on a BV term.
func upperBound(t *Term) uint64 {
	switch {
	case t.op == "const":
		return t.val
	case t.op == "bvand":
		a, b := upperBound(t.args[0]), upperBound(t.args[1])
		if a < b {
			return a
		}
		return b
	case strings.HasPrefix(t.op, "(_ zero_extend"):
		return upperBound(t.args[0])
	case t.op == "ite":
		a, b := upperBound(t.args[1]), upperBound(t.args[2])
		if a > b {
			return a
		}
		return b
	}
	return maskW(t.sort.w)
}

type stepSummary struct {
	thresholds []uint64 // thresholds[k-1] = least x with E(x) >= k
	base       uint64   // E(0)
	err        string
}

var stepCache sync.Map // key -> *stepSummary

func shapeKey(t *Term, root *Term, sb *strings.Builder) {
	if t == root {
		sb.WriteString("X")
		return
	}
	if s := t.leafString(); s != "" {
		sb.WriteString(s)
		return
	}
	sb.WriteString("(" + t.op)
	for _, a := range t.args {
		sb.WriteByte(' ')
		shapeKey(a, root, sb)
	}
	sb.WriteByte(')')
}

// monotoneSummary summarises E(x) = uint(t[x]) (t a float expression over the single
// integer root x in [0,ub]) as a non-decreasing step function, by native bisection.
func monotoneSummary(t *Term, root *Term, ub uint64, maxSteps int) *stepSummary {
	var sb strings.Builder
	shapeKey(t, root, &sb)
	fmt.Fprintf(&sb, "|%d", ub)
	key := sb.String()
	if s, ok := stepCache.Load(key); ok {
		return s.(*stepSummary)
	}
	eval := func(x uint64) (uint64, bool) {
		bits, ok := evalTerm(t, nil, map[int]uint64{root.id: x})
		if !ok {
			return 0, false
		}
		var f float64
		if t.sort.w == 32 {
			f = float64(math.Float32frombits(uint32(bits)))
		} else {
			f = math.Float64frombits(bits)
		}
		if f != f || f < 0 || f > 1e15 {
			return 0, false
		}
		return uint64(f), true
	}
	s := &stepSummary{}
	lo, ok1 := eval(0)
	hi, ok2 := eval(ub)
	if !ok1 || !ok2 || hi < lo || hi-lo > uint64(maxSteps) {
		s.err = fmt.Sprintf("cannot summarise: E(0)=%d ok=%v E(ub)=%d ok=%v", lo, ok1, hi, ok2)
		stepCache.Store(key, s)
		return s
	}
	s.base = lo
	prev := uint64(0)
	for k := lo + 1; k <= hi; k++ {
		// least x in [prev, ub] with E(x) >= k
		a, b := prev, ub
		for a < b {
			m := a + (b-a)/2
			v, ok := eval(m)
			if !ok {
				s.err = "evaluation failed inside the range"
				stepCache.Store(key, s)
				return s
			}
			if v >= k {
				b = m
			} else {
				a = m + 1
			}
		}
		s.thresholds = append(s.thresholds, a)
		prev = a
	}
	// monotonicity checks: at thresholds and at random points
	for j, th := range s.thresholds {
		k := lo + 1 + uint64(j)
		v1, _ := eval(th)
		if v1 < k {
			s.err = "not monotone at threshold"
		}
		if th > 0 {
			if v0, _ := eval(th - 1); v0 >= k {
				s.err = "not monotone below threshold"
			}
		}
	}
	rng := rand.New(rand.NewSource(int64(len(key))))
	for j := 0; j < 2048 && s.err == ""; j++ {
		x := rng.Uint64() % (ub + 1)
		y := rng.Uint64() % (ub + 1)
		if x > y {
			x, y = y, x
		}
		vx, _ := eval(x)
		vy, _ := eval(y)
		if vx > vy {
			s.err = "not monotone at sampled points"
		}
	}
	stepCache.Store(key, s)
	return s
}

// summariseFloatToUint encodes uint(t) for a float expression with native parts.
func (i *interpreter) summariseFloatToUint(t *Term, w int) *Term {
	e := i.ex
	root, ok := findIntRoot(t)
	if !ok {
		e.unsupported("float expression with native function and no single integer root")
	}
	ub := upperBound(root)
	s := monotoneSummary(t, root, ub, 4096)
	if s.err != "" {
		e.unsupported("monotone summary failed: %s", s.err)
	}
	e.summaries++
	p := e.pool
	// distinct thresholds, each with the value taken from there on
	var ths, vals []uint64
	for j, th := range s.thresholds {
		v := s.base + 1 + uint64(j)
		if n := len(ths); n > 0 && ths[n-1] == th {
			vals[n-1] = v
		} else {
			ths = append(ths, th)
			vals = append(vals, v)
		}
	}
	return stepTree(p, root, ths, vals, s.base, w)
}

// stepTree builds a balanced ite tree for the step function that is base below ths[0]
// and vals[j] on [ths[j], ths[j+1]).
func stepTree(p *termPool, x *Term, ths, vals []uint64, base uint64, w int) *Term {
	var build func(lo, hi int) *Term // value index range: -1 = base
	build = func(lo, hi int) *Term {
		if lo == hi {
			if lo < 0 {
				return p.BV(base, w)
			}
			return p.BV(vals[lo], w)
		}
		mid := lo + (hi-lo+1)/2
		c := p.BVCmp("bvuge", x, p.BV(ths[mid], x.sort.w))
		return p.Ite(c, build(mid, hi), build(lo, mid-1))
	}
	return build(-1, len(ths)-1)
}
