package interp

// Call machinery, panics, and the path/exploration drivers.

import (
	"fmt"
	"go/token"
	"go/types"
	"os"
	"runtime"
	"runtime/debug"
	"sort"
	"strings"
	"sync"
	"time"

	"golang.org/x/tools/go/ssa"
)

var traceCalls = os.Getenv("GOSYM_TRACE") != ""

func mustDeref(t types.Type) types.Type {
	if p, ok := t.Underlying().(*types.Pointer); ok {
		return p.Elem()
	}
	panic(fmt.Sprintf("mustDeref: %s is not a pointer", t))
}

type stackEntry struct {
	fn  *ssa.Function
	pos token.Pos
	syn string // synthetic function name (e.g. runtime.gopanic)
}

// panicVal wraps every panic travelling through target frames.
type panicVal struct {
	v     interface{} // targetPanic, runtime.Error, string, goexitPanic
	stack []stackEntry
}

func (fr *frame) pos() token.Pos {
	if fr.lastPos != token.NoPos {
		return fr.lastPos
	}
	return fr.fn.Pos()
}

func (i *interpreter) stackFrom(fr *frame) []stackEntry {
	var st []stackEntry
	for f := fr; f != nil; f = f.caller {
		if f != fr && f.inPanicDefers {
			// f is running its deferred calls because of a panic: the Go run-time has not unwound
			// the panicking frames, they are still on the stack below runtime.gopanic
			pv, _ := f.panic.(*panicVal)
			if pv == nil {
				pv = f.recovered
			}
			if pv != nil && len(pv.stack) > 0 {
				st = append(st, stackEntry{syn: "runtime.gopanic"})
				st = append(st, pv.stack...)
				return st
			}
		}
		st = append(st, stackEntry{fn: f.fn, pos: f.pos()})
	}
	return st
}

// capturePanicStack remembers the stack at an explicit panic() site; wrapPanic picks it up.
func (i *interpreter) capturePanicStack(fr *frame) {
	i.panicStack = i.stackFrom(fr)
}

func (i *interpreter) wrapPanic(fr *frame, r interface{}) *panicVal {
	if pv, ok := r.(*panicVal); ok {
		return pv
	}
	pv := &panicVal{v: r}
	if i.panicStack != nil {
		pv.stack = i.panicStack
		i.panicStack = nil
	} else {
		pv.stack = i.stackFrom(fr)
	}
	return pv
}

// call interprets a call to a function (function, builtin or closure)
// fn with arguments args, returning its result.
func call(i *interpreter, caller *frame, callpos token.Pos, fn value, args []value) value {
	switch fn := fn.(type) {
	case *ssa.Function:
		if fn == nil {
			panic(runtimeError("invalid memory address or nil pointer dereference (call of nil func)"))
		}
		return callSSA(i, caller, callpos, fn, args, nil)
	case *closure:
		return callSSA(i, caller, callpos, fn.Fn, args, fn.Env)
	case *ssa.Builtin:
		return callBuiltin(caller, callpos, fn, args)
	}
	panic(fmt.Sprintf("cannot call %T", fn))
}

func loc(fset *token.FileSet, pos token.Pos) string {
	if pos == token.NoPos {
		return ""
	}
	return " at " + fset.Position(pos).String()
}

func callSSA(i *interpreter, caller *frame, callpos token.Pos, fn *ssa.Function, args []value, env []value) value {
	fr := &frame{
		i:       i,
		caller:  caller,
		fn:      fn,
		callpos: callpos,
	}
	if caller != nil {
		fr.g = caller.g
	}
	info := i.shared.info(fn)
	name := info.name
	if traceCalls && !i.initMode {
		fmt.Fprintf(os.Stderr, "%*s-> %s\n", i.depth, "", name)
	}
	if i.initMode && fn.Synthetic == "package initializer" && fn.Pkg != i.initPkg {
		return nil
	}
	if fn.Parent() == nil {
		if sub := i.shared.subst[name]; sub != nil && !(caller != nil && caller.fn == sub) {
			return callSSA(i, caller, callpos, sub, args, nil)
		}
		if ext := i.shared.ext[name]; ext != nil && i.bypass[name] == 0 {
			return ext(fr, args)
		}
		if ext := externals[name]; ext != nil {
			return ext(fr, args)
		}
		if o := fn.Origin(); o != nil && o != fn {
			// instantiations of generic standard-library types that are modelled (atomic.Pointer[T])
			if ext := i.shared.ext[o.String()]; ext != nil {
				return ext(fr, args)
			}
		}
		if fn.Blocks == nil {
			if o := fn.Origin(); o != nil {
				if ext := i.shared.ext[o.String()]; ext != nil {
					return ext(fr, args)
				}
			}
			i.ex.unsupported("no code for function: %s", name)
		}
	}
	if fn.TypeParams().Len() > 0 && len(fn.TypeArgs()) == 0 {
		i.ex.unsupported("uninstantiated generic function %s", name)
	}
	if info.inMain {
		if !i.ex.funcs[name] {
			i.ex.funcs[name] = true
			i.shared.fnSeen.LoadOrStore(name, fn)
		}
	}
	if i.depth++; i.depth > 400 {
		i.ex.abort(EndBudget, "call depth exceeded")
	}
	defer func() { i.depth-- }()

	fr.env = make(map[ssa.Value]value)
	fr.block = fn.Blocks[0]
	fr.locals = make([]value, len(fn.Locals))
	for i, l := range fn.Locals {
		fr.locals[i] = zero(mustDeref(l.Type()))
		fr.env[l] = &fr.locals[i]
	}
	for i, p := range fn.Params {
		fr.env[p] = args[i]
	}
	for i, fv := range fn.FreeVars {
		fr.env[fv] = env[i]
	}
	for fr.block != nil {
		runFrame(fr)
	}
	return fr.result
}

type fnInfo struct {
	name   string
	inMain bool
}

func (sh *Shared) info(fn *ssa.Function) *fnInfo {
	if v, ok := sh.fnInfos.Load(fn); ok {
		return v.(*fnInfo)
	}
	inf := &fnInfo{name: fn.String()}
	inf.inMain = fn.Pkg == sh.main || (fn.Origin() != nil && fn.Origin().Pkg == sh.main) || (fn.Parent() != nil && sh.inMain(fn))
	sh.fnInfos.Store(fn, inf)
	return inf
}

func (sh *Shared) inMain(fn *ssa.Function) bool {
	for f := fn; f != nil; f = f.Parent() {
		if f.Pkg == sh.main {
			return true
		}
		if o := f.Origin(); o != nil && o.Pkg == sh.main {
			return true
		}
	}
	return false
}

func runFrame(fr *frame) {
	defer func() {
		if fr.block == nil {
			return // normal return
		}
		r := recover()
		if pa, ok := r.(pathAbort); ok {
			panic(pa)
		}
		if _, ok := r.(internalError); ok {
			panic(r)
		}
		if _, ok := r.(crashPanic); ok {
			panic(r) // a process kill: no deferred call runs
		}
		if _, ok := r.(killedPanic); ok {
			panic(r) // the path is over: this goroutine is being torn down
		}
		if re, ok := r.(runtime.Error); ok {
			// a Go runtime error inside the interpreter stands for the target's run-time panic,
			// except for interpreter bugs, which we try to tell apart by the message
			if isInterpreterBug(re) {
				panic(internalError{fmt.Sprintf("%v\n%s", re, debug.Stack())})
			}
		}
		if s, ok := r.(string); ok && isInterpreterBugMsg(s) {
			panic(internalError{s + "\n" + string(debug.Stack())})
		}
		fr.panicking = true
		fr.panic = fr.i.wrapPanic(fr, r)
		fr.inPanicDefers = true
		fr.runDefers()
		fr.inPanicDefers = false
		fr.block = fr.fn.Recover
	}()

	for {
		nonPhis := executePhis(fr)
		for _, instr := range nonPhis {
			fr.cur = instr
			if p := instr.Pos(); p != token.NoPos {
				fr.lastPos = p
			}
			fr.i.ex.step()
			if visitInstr(fr, instr) == kReturn {
				return
			}
		}
	}
}

type internalError struct{ msg string }

// crashPanic models the process being killed: it unwinds to runUntilCrash without running defers.
type crashPanic struct{}

func isInterpreterBug(re runtime.Error) bool {
	s := re.Error()
	// Type assertion failures on interpreter values are interpreter bugs (or unsupported symbolic values).
	return strings.Contains(s, "interface conversion: interp.value") || strings.Contains(s, "interface conversion: interface {} is interp.")
}

func isInterpreterBugMsg(s string) bool {
	return strings.HasPrefix(s, "unexpected ") || strings.HasPrefix(s, "get: no value") || strings.HasPrefix(s, "invalid binary op") || strings.HasPrefix(s, "invalid unary op") || strings.HasPrefix(s, "cannot ") || strings.HasPrefix(s, "unknown built-in") || strings.HasPrefix(s, "illegal ") || strings.HasPrefix(s, "unhashable")
}

// doRecover implements the recover() built-in.
func doRecover(caller *frame) value {
	if caller != nil && !caller.panicking &&
		caller.caller != nil && caller.caller.panicking {
		pv := caller.caller.panic.(*panicVal)
		if _, ok := pv.v.(goexitPanic); ok {
			return iface{}
		}
		caller.caller.panicking = false
		caller.caller.panic = nil
		caller.caller.recovered = pv
		return caller.i.panicValueToTarget(pv.v)
	}
	return iface{}
}

func (i *interpreter) panicValueToTarget(p interface{}) value {
	switch p := p.(type) {
	case targetPanic:
		return p.v
	case runtime.Error:
		return iface{i.runtimeErrorType(), structure{p.Error()}}
	case string:
		return iface{i.runtimeErrorType(), structure{p}}
	default:
		panic(internalError{fmt.Sprintf("unexpected panic type %T in target call to recover(): %v", p, p)})
	}
}

// runtimeErrorType is a named struct type {msg string} implementing error and
// runtime.Error, supplied by the harness overlay (verifRuntimeError).
func (i *interpreter) runtimeErrorType() types.Type {
	return i.shared.rtErrType
}

// ---------------------------------------------------------------------

// Shared is the per-program state shared by all paths.
type Shared struct {
	prog          *ssa.Program
	main          *ssa.Package
	sizes         types.Sizes
	ext           map[string]externalFn
	subst         map[string]*ssa.Function
	globalsMu     sync.Mutex
	sharedGlobals map[*ssa.Global]*value
	rtErrType     types.Type
	initOnce      sync.Once
	Warnings      []string
	fnSeen        sync.Map
	fnInfos       sync.Map
	harnessFn     sync.Map
	Thorough      bool
}

func NewShared(prog *ssa.Program, mainPkg *ssa.Package, sizes types.Sizes) *Shared {
	sh := &Shared{
		prog:          prog,
		main:          mainPkg,
		sizes:         sizes,
		ext:           map[string]externalFn{},
		subst:         map[string]*ssa.Function{},
		sharedGlobals: map[*ssa.Global]*value{},
	}
	registerVerifExternals(sh)
	if t := mainPkg.Type("verifRuntimeError"); t != nil {
		sh.rtErrType = t.Type()
	} else {
		sh.rtErrType = prog.ImportedPackage("runtime").Type("errorString").Object().Type()
	}
	// environment functions replaced by harness-side models (an in-memory file system)
	for real, model := range map[string]string{
		"os.MkdirAll": "vfsMkdirAll", "os.CreateTemp": "vfsCreateTemp", "os.Open": "vfsOpen", "os.Create": "vfsCreate",
		"os.Rename": "vfsRename", "os.Remove": "vfsRemove", "os.OpenFile": "vfsOpenFile", "os.Stat": "vfsStat", "os.Lstat": "vfsStat", "os.ReadFile": "vfsReadFile",
		"(*os.File).Sync": "vfsFileSync",
		"(*os.File).Name": "vfsFileName", "(*os.File).WriteString": "vfsFileWriteString", "(*os.File).Write": "vfsFileWrite",
		"(*os.File).Close": "vfsFileClose", "(*os.File).Read": "vfsFileRead",
	} {
		if f := mainPkg.Func(model); f != nil {
			sh.subst[real] = f
		}
	}
	// substitutions declared by the harness: func verifSubst_<pkg>_<Name> replaces <pkg>.<Name>
	for name, m := range mainPkg.Members {
		if f, ok := m.(*ssa.Function); ok && strings.HasPrefix(name, "verifSubst_") {
			target := strings.TrimPrefix(name, "verifSubst_")
			target = strings.Replace(target, "__", "/", -1)
			if k := strings.LastIndex(target, "_"); k >= 0 {
				target = target[:k] + "." + target[k+1:]
			}
			sh.subst[target] = f
		}
	}
	return sh
}

// purePackages have their package initializers run once; their globals are shared
// (treated as immutable) by all paths.
var purePackages = []string{"internal/oserror", "internal/poll", "math", "math/bits", "unicode/utf8", "strconv", "sort", "errors", "strings", "encoding/binary", "unicode", "io", "bytes", "path/filepath", "os", "context", "time", "fmt", "bufio", "syscall", "io/fs"}

func (sh *Shared) newInterp(ex *Exec) *interpreter {
	i := &interpreter{
		prog:    sh.prog,
		globals: make(map[*ssa.Global]*value),
		sizes:   sh.sizes,
		ex:      ex,
		shared:  sh,
	}
	i.runtimeErrorString = sh.rtErrType
	initReflect(i)
	sh.globalsMu.Lock()
	for _, pkg := range sh.prog.AllPackages() {
		for _, m := range pkg.Members {
			if g, ok := m.(*ssa.Global); ok {
				if pkg == sh.main {
					cell := zero(mustDeref(g.Type()))
					i.globals[g] = &cell
				} else {
					c := sh.sharedGlobals[g]
					if c == nil {
						cell := zero(mustDeref(g.Type()))
						c = &cell
						sh.sharedGlobals[g] = c
					}
					i.globals[g] = c
				}
			}
		}
	}
	sh.globalsMu.Unlock()
	return i
}

// initShared runs the initializers of the pure packages once.
func (sh *Shared) initShared() {
	sh.initOnce.Do(func() {
		ex := newExec(nil, nil, Limits{MaxSteps: 200_000_000, MaxDecisions: 10}, map[string]uint64{})
		i := sh.newInterp(ex)
		i.initMode = true
		for _, path := range purePackages {
			pkg := sh.prog.ImportedPackage(path)
			if pkg == nil {
				continue
			}
			func() {
				defer func() {
					if r := recover(); r != nil {
						sh.Warnings = append(sh.Warnings, fmt.Sprintf("init of %s: %v", path, describePanic(r)))
					}
				}()
				i.runPkgInit(pkg)
			}()
		}
	})
}

func describePanic(r interface{}) string {
	switch r := r.(type) {
	case pathAbort:
		return r.kind.String() + ": " + r.msg
	case *panicVal:
		return describePanic(r.v)
	case targetPanic:
		return "panic: " + toString(r.v)
	case internalError:
		return "internal: " + r.msg
	case error:
		return r.Error()
	}
	return fmt.Sprint(r)
}

// runPkgInit runs pkg's synthesized init function without descending into the
// initializers of the packages it imports.
func (i *interpreter) runPkgInit(pkg *ssa.Package) {
	initFn := pkg.Func("init")
	if initFn == nil {
		return
	}
	i.initPkg = pkg
	call(i, nil, token.NoPos, initFn, nil)
	i.initPkg = nil
}

// RunPath executes harness fnName along the decision prefix.
func (sh *Shared) RunPath(fnName string, solver *Solver, prefix []Decision, lim Limits, concrete map[string]uint64) (res *PathResult) {
	sh.initShared()
	ex := newExec(solver, prefix, lim, concrete)
	i := sh.newInterp(ex)
	defer func() {
		r := recover()
		if r == nil {
			return
		}
		switch r := r.(type) {
		case pathAbort:
			res = ex.finish(r.kind, r.msg)
		case *panicVal:
			if _, ok := r.v.(goexitPanic); ok {
				res = ex.finish(EndOK, "goexit")
				return
			}
			msg := describePanic(r.v)
			var st []string
			for _, s := range r.stack {
				st = append(st, sh.entryString(s))
			}
			v := Violation{Msg: "uncaught panic: " + msg, Decisions: len(ex.decisions), Trace: st}
			if concrete != nil {
				v.Model, v.Confirmed = concrete, true
			} else if solver != nil && solver.Check() == Sat {
				v.Model, v.Kinds = ex.model()
			}
			ex.res.Obligations++
			ex.res.Violations = append(ex.res.Violations, v)
			res = ex.finish(EndPanic, msg)
		case internalError:
			res = ex.finish(EndUnsupported, "internal error: "+r.msg)
		default:
			res = ex.finish(EndUnsupported, fmt.Sprintf("interpreter crash: %v\n%s", r, debug.Stack()))
		}
	}()
	// per-path initialisation of the package under test
	i.initMode = true
	i.runPkgInit(sh.main)
	i.initMode = false
	fn := sh.main.Func(fnName)
	if fn == nil {
		return ex.finish(EndUnsupported, "no such harness: "+fnName)
	}
	ex.steps = 0
	i.runMain(fn)
	ex.res.Obligations++ // implicit: no panic escaped
	ex.res.Discharged++
	return ex.finish(EndOK, "")
}

func (sh *Shared) entryString(s stackEntry) string {
	if s.fn == nil {
		return s.syn
	}
	p := sh.prog.Fset.Position(s.pos)
	return fmt.Sprintf("%s (%s:%d)", s.fn.String(), shortFile(p.Filename), p.Line)
}

func shortFile(f string) string {
	if k := strings.LastIndex(f, "/"); k >= 0 {
		return f[k+1:]
	}
	return f
}

// ---------------------------------------------------------------------
// Exploration driver

type Config struct {
	Workers         int
	SolverArgv      []string
	TimeoutMs       int
	Lim             Limits
	MaxPaths        int
	MaxViolations   int
	Deadline        time.Time
	SolverLogPrefix string
}

type HarnessResult struct {
	Harness       string              `json:"harness"`
	Paths         int                 `json:"paths"`
	Ends          map[string]int      `json:"ends"`
	Steps         int64               `json:"steps"`
	Obligations   int                 `json:"obligations"`
	Discharged    int                 `json:"discharged"`
	Unknowns      int                 `json:"unknowns"`
	Violations    []Violation         `json:"violations"`
	Reached       []string            `json:"reached"`
	Funcs         []string            `json:"functions_encoded"`
	Incomplete    []string            `json:"incomplete"`
	Queries       int                 `json:"queries"`
	Sat           int                 `json:"sat"`
	Unsat         int                 `json:"unsat"`
	SolverUnknown int                 `json:"solver_unknown"`
	SolverErrors  int                 `json:"solver_errors"`
	SolverSec     float64             `json:"solver_s"`
	WallSec       float64             `json:"wall_s"`
	Exhausted     bool                `json:"exhausted"`
	Samples       []map[string]uint64 `json:"samples"`
	MaxDecisions  int                 `json:"max_decisions"`
}

func (sh *Shared) Explore(fnName string, cfg Config) *HarnessResult {
	t0 := time.Now()
	hr := &HarnessResult{Harness: fnName, Ends: map[string]int{}}
	var mu sync.Mutex
	cond := sync.NewCond(&mu)
	work := [][]Decision{nil}
	active := 0
	stop := false
	reached := map[string]bool{}
	funcs := map[string]bool{}
	seenViol := map[string]bool{}

	worker := func(id int) {
		solver, err := NewSolver(cfg.SolverArgv, cfg.TimeoutMs)
		if err != nil {
			mu.Lock()
			hr.Incomplete = append(hr.Incomplete, "cannot start solver: "+err.Error())
			stop = true
			cond.Broadcast()
			mu.Unlock()
			return
		}
		if cfg.SolverLogPrefix != "" {
			f, _ := os.Create(fmt.Sprintf("%s.%d.smt2", cfg.SolverLogPrefix, id))
			solver.Log = f
			defer f.Close()
		}
		defer solver.Close()
		for {
			mu.Lock()
			for len(work) == 0 && active > 0 && !stop {
				cond.Wait()
			}
			if stop || (len(work) == 0 && active == 0) {
				mu.Unlock()
				break
			}
			prefix := work[len(work)-1]
			work = work[:len(work)-1]
			active++
			mu.Unlock()

			res := sh.RunPath(fnName, solver, prefix, cfg.Lim, nil)

			mu.Lock()
			active--
			hr.Paths++
			hr.Ends[res.End.String()]++
			hr.Steps += int64(res.Steps)
			hr.Obligations += res.Obligations
			hr.Discharged += res.Discharged
			hr.Unknowns += res.Unknowns
			if res.Decisions > hr.MaxDecisions {
				hr.MaxDecisions = res.Decisions
			}
			for _, r := range res.Reached {
				reached[r] = true
			}
			for f := range res.Funcs {
				funcs[f] = true
			}
			for _, v := range res.Violations {
				key := v.Msg + "|" + v.Pos
				if !seenViol[key] || len(hr.Violations) < 8 {
					seenViol[key] = true
					if len(hr.Violations) < 64 {
						hr.Violations = append(hr.Violations, v)
					}
				}
			}
			switch res.End {
			case EndBudget, EndUnsupported:
				if len(hr.Incomplete) < 20 {
					hr.Incomplete = append(hr.Incomplete, res.End.String()+": "+res.Msg+" @"+decisionsString(prefix))
				}
			}
			if res.SampleModel != nil && (len(hr.Samples) < 8 || (len(hr.Samples) < 40 && hr.Paths%7 == 0)) {
				hr.Samples = append(hr.Samples, res.SampleModel)
			}
			work = append(work, res.Forks...)
			if cfg.MaxPaths > 0 && hr.Paths+active >= cfg.MaxPaths && len(work) > 0 {
				hr.Incomplete = append(hr.Incomplete, fmt.Sprintf("path budget %d reached with %d pending", cfg.MaxPaths, len(work)))
				stop = true
			}
			if cfg.MaxViolations > 0 && len(hr.Violations) >= cfg.MaxViolations {
				stop = true
			}
			if !cfg.Deadline.IsZero() && time.Now().After(cfg.Deadline) && (len(work) > 0 || active > 0) {
				hr.Incomplete = append(hr.Incomplete, fmt.Sprintf("time budget reached with %d pending", len(work)))
				stop = true
			}
			cond.Broadcast()
			mu.Unlock()
		}
		mu.Lock()
		hr.Queries += solver.Stats.Queries
		hr.Sat += solver.Stats.Sat
		hr.Unsat += solver.Stats.Unsat
		hr.SolverUnknown += solver.Stats.Unknown
		hr.SolverErrors += solver.Stats.Errors
		hr.SolverSec += float64(solver.Stats.SolverNs) / 1e9
		cond.Broadcast()
		mu.Unlock()
	}
	var wg sync.WaitGroup
	n := cfg.Workers
	if n <= 0 {
		n = 1
	}
	for w := 0; w < n; w++ {
		wg.Add(1)
		go func(id int) { defer wg.Done(); worker(id) }(w)
	}
	wg.Wait()
	for r := range reached {
		hr.Reached = append(hr.Reached, r)
	}
	sort.Strings(hr.Reached)
	for f := range funcs {
		hr.Funcs = append(hr.Funcs, f)
	}
	sort.Strings(hr.Funcs)
	hr.Exhausted = len(hr.Incomplete) == 0 && hr.Unknowns == 0 && hr.Ends["budget"] == 0 && hr.Ends["unsupported"] == 0
	hr.WallSec = time.Since(t0).Seconds()
	return hr
}

// FuncHashes returns a short hash of the SSA text of every encoded function,
// so that evidence shows the encoding tracked the tree.
func (sh *Shared) FuncHashes(hrs []*HarnessResult) map[string]string {
	want := map[string]bool{}
	for _, hr := range hrs {
		for _, f := range hr.Funcs {
			want[f] = true
		}
	}
	out := map[string]string{}
	sh.fnSeen.Range(func(k, v any) bool {
		name, fn := k.(string), v.(*ssa.Function)
		if want[name] {
			var sb strings.Builder
			fn.WriteTo(&sb)
			out[name] = fmt.Sprintf("%016x", fnv64(sb.String()))
		}
		return true
	})
	return out
}

func fnv64(s string) uint64 {
	h := uint64(14695981039346656037)
	for i := 0; i < len(s); i++ {
		h ^= uint64(s[i])
		h *= 1099511628211
	}
	return h
}
