package interp

// Symbolic terms: a small hash-consed DAG that prints to SMT-LIB2.
// Bit-vectors model Go's fixed-width integers (wrap-around semantics),
// Bool models bool, FloatingPoint models float32/float64.

import (
	"fmt"
	"math"
	"math/big"
	"math/bits"
	"strings"
)

type sortKind uint8

const (
	sBool sortKind = iota
	sBV
	sFP
)

type Sort struct {
	k sortKind
	w int // bit-vector width; for FP: total width (32 or 64)
}

var (
	boolSort = Sort{sBool, 0}
	f64Sort  = Sort{sFP, 64}
	f32Sort  = Sort{sFP, 32}
)

func bvSort(w int) Sort { return Sort{sBV, w} }

func (s Sort) String() string {
	switch s.k {
	case sBool:
		return "Bool"
	case sBV:
		return fmt.Sprintf("(_ BitVec %d)", s.w)
	case sFP:
		if s.w == 32 {
			return "(_ FloatingPoint 8 24)"
		}
		return "(_ FloatingPoint 11 53)"
	}
	return "?"
}

type Term struct {
	id    int
	op    string // "var", "const", or SMT operator (possibly indexed, e.g. "(_ extract 7 0)")
	args  []*Term
	sort  Sort
	name  string // var
	val   uint64 // const: BV value (masked), Bool 0/1, FP: IEEE bits
	size  int    // DAG size estimate
	ctree bool   // ite-tree whose leaves are all constants (or a constant)
}

func (t *Term) isConst() bool { return t.op == "const" }

// termPool hash-conses terms for one path execution.
type termPool struct {
	tab  map[string]*Term
	next int
	vars []*Term
	all  []*Term // by id
}

func newTermPool() *termPool { return &termPool{tab: map[string]*Term{}} }

func (p *termPool) mk(op string, sort Sort, args ...*Term) *Term {
	var sb strings.Builder
	sb.WriteString(op)
	sb.WriteByte('|')
	sb.WriteString(sort.String())
	for _, a := range args {
		fmt.Fprintf(&sb, ",%d", a.id)
	}
	key := sb.String()
	if t, ok := p.tab[key]; ok {
		return t
	}
	sz := 1
	for _, a := range args {
		sz += a.size
	}
	t := &Term{id: p.next, op: op, args: args, sort: sort, size: sz}
	if op == "ite" && args[1].ctree && args[2].ctree {
		t.ctree = true
	}
	p.next++
	p.all = append(p.all, t)
	p.tab[key] = t
	return t
}

func (p *termPool) Var(name string, sort Sort) *Term {
	key := "var|" + name
	if t, ok := p.tab[key]; ok {
		return t
	}
	t := &Term{id: p.next, op: "var", sort: sort, name: name, size: 1}
	p.next++
	p.all = append(p.all, t)
	p.tab[key] = t
	p.vars = append(p.vars, t)
	return t
}

func maskW(w int) uint64 {
	if w >= 64 {
		return math.MaxUint64
	}
	return uint64(1)<<uint(w) - 1
}

func (p *termPool) BV(v uint64, w int) *Term {
	v &= maskW(w)
	key := fmt.Sprintf("c|%d|%d", w, v)
	if t, ok := p.tab[key]; ok {
		return t
	}
	t := &Term{id: p.next, op: "const", sort: bvSort(w), val: v, size: 1, ctree: true}
	p.next++
	p.all = append(p.all, t)
	p.tab[key] = t
	return t
}

func (p *termPool) Bool(b bool) *Term {
	v := uint64(0)
	if b {
		v = 1
	}
	key := fmt.Sprintf("b|%d", v)
	if t, ok := p.tab[key]; ok {
		return t
	}
	t := &Term{id: p.next, op: "const", sort: boolSort, val: v, size: 1, ctree: true}
	p.next++
	p.all = append(p.all, t)
	p.tab[key] = t
	return t
}

func (p *termPool) FP(bitsv uint64, w int) *Term {
	key := fmt.Sprintf("f|%d|%d", w, bitsv)
	if t, ok := p.tab[key]; ok {
		return t
	}
	s := f64Sort
	if w == 32 {
		s = f32Sort
	}
	t := &Term{id: p.next, op: "const", sort: s, val: bitsv, size: 1}
	p.next++
	p.all = append(p.all, t)
	p.tab[key] = t
	return t
}

func sext(v uint64, w int) int64 {
	if w >= 64 {
		return int64(v)
	}
	sh := uint(64 - w)
	return int64(v<<sh) >> sh
}

// ---- Boolean constructors with light simplification ----

func (p *termPool) Not(a *Term) *Term {
	if a.isConst() {
		return p.Bool(a.val == 0)
	}
	if a.op == "not" {
		return a.args[0]
	}
	return p.mk("not", boolSort, a)
}

func (p *termPool) And(a, b *Term) *Term {
	if a.isConst() {
		if a.val == 0 {
			return a
		}
		return b
	}
	if b.isConst() {
		if b.val == 0 {
			return b
		}
		return a
	}
	if a == b {
		return a
	}
	return p.mk("and", boolSort, a, b)
}

func (p *termPool) Or(a, b *Term) *Term {
	if a.isConst() {
		if a.val == 1 {
			return a
		}
		return b
	}
	if b.isConst() {
		if b.val == 1 {
			return b
		}
		return a
	}
	if a == b {
		return a
	}
	return p.mk("or", boolSort, a, b)
}

func (p *termPool) Ite(c, a, b *Term) *Term {
	if c.isConst() {
		if c.val == 1 {
			return a
		}
		return b
	}
	if a == b {
		return a
	}
	if a.sort.k == sBool {
		if a.isConst() && b.isConst() {
			if a.val == 1 && b.val == 0 {
				return c
			}
			if a.val == 0 && b.val == 1 {
				return p.Not(c)
			}
		}
		if a.isConst() {
			if a.val == 1 {
				return p.Or(c, b)
			}
			return p.And(p.Not(c), b)
		}
		if b.isConst() {
			if b.val == 1 {
				return p.Or(p.Not(c), a)
			}
			return p.And(c, a)
		}
	}
	return p.mk("ite", a.sort, c, a, b)
}

func (p *termPool) Eq(a, b *Term) *Term {
	if isTree(a) && b.isConst() && a.sort.k == sBV {
		return p.mapLeaves(a, func(c *Term) *Term { return p.Eq(c, b) }, map[int]*Term{})
	}
	if isTree(b) && a.isConst() && a.sort.k == sBV {
		return p.mapLeaves(b, func(c *Term) *Term { return p.Eq(a, c) }, map[int]*Term{})
	}
	if a == b && a.sort.k != sFP {
		return p.Bool(true)
	}
	if a.isConst() && b.isConst() && a.sort.k != sFP {
		return p.Bool(a.val == b.val)
	}
	if a.sort.k == sBool {
		if a.isConst() {
			a, b = b, a
		}
		if b.isConst() {
			if b.val == 1 {
				return a
			}
			return p.Not(a)
		}
	}
	if a.sort.k == sFP {
		return p.mk("fp.eq", boolSort, a, b)
	}
	if a.id > b.id {
		a, b = b, a
	}
	return p.mk("=", boolSort, a, b)
}

// mapLeaves rebuilds a constant-leaved ite tree with f applied to every leaf.
func (p *termPool) mapLeaves(t *Term, f func(c *Term) *Term, memo map[int]*Term) *Term {
	if r, ok := memo[t.id]; ok {
		return r
	}
	var r *Term
	if t.op == "ite" {
		r = p.Ite(t.args[0], p.mapLeaves(t.args[1], f, memo), p.mapLeaves(t.args[2], f, memo))
	} else {
		r = f(t)
	}
	memo[t.id] = r
	return r
}

func isTree(t *Term) bool { return t.ctree && t.op == "ite" }

// ---- Bit-vector constructors ----

func foldBV(op string, w int, x, y uint64) (uint64, bool) {
	m := maskW(w)
	switch op {
	case "bvadd":
		return (x + y) & m, true
	case "bvsub":
		return (x - y) & m, true
	case "bvmul":
		return (x * y) & m, true
	case "bvand":
		return x & y, true
	case "bvor":
		return x | y, true
	case "bvxor":
		return x ^ y, true
	case "bvshl":
		if y >= uint64(w) {
			return 0, true
		}
		return (x << y) & m, true
	case "bvlshr":
		if y >= uint64(w) {
			return 0, true
		}
		return x >> y, true
	case "bvashr":
		sx := sext(x, w)
		if y >= uint64(w) {
			y = uint64(w - 1)
		}
		return uint64(sx>>y) & m, true
	case "bvudiv":
		if y == 0 {
			return m, true
		}
		return x / y, true
	case "bvurem":
		if y == 0 {
			return x, true
		}
		return x % y, true
	case "bvsdiv":
		sx, sy := sext(x, w), sext(y, w)
		if sy == 0 {
			if sx < 0 {
				return 1, true
			}
			return m, true
		}
		if sy == -1 {
			return uint64(-sx) & m, true
		}
		return uint64(sx/sy) & m, true
	case "bvsrem":
		sx, sy := sext(x, w), sext(y, w)
		if sy == 0 {
			return x, true
		}
		if sy == -1 {
			return 0, true
		}
		return uint64(sx%sy) & m, true
	}
	return 0, false
}

func (p *termPool) BVBin(op string, a, b *Term) *Term {
	w := a.sort.w
	if isTree(a) && b.isConst() {
		return p.mapLeaves(a, func(c *Term) *Term { return p.BVBin(op, c, b) }, map[int]*Term{})
	}
	if isTree(b) && a.isConst() {
		return p.mapLeaves(b, func(c *Term) *Term { return p.BVBin(op, a, c) }, map[int]*Term{})
	}
	if a.isConst() && b.isConst() {
		if v, ok := foldBV(op, w, a.val, b.val); ok {
			return p.BV(v, w)
		}
	}
	// identities
	switch op {
	case "bvadd", "bvor", "bvxor":
		if a.isConst() && a.val == 0 {
			return b
		}
		if b.isConst() && b.val == 0 {
			return a
		}
	case "bvsub", "bvshl", "bvlshr", "bvashr":
		if b.isConst() && b.val == 0 {
			return a
		}
	case "bvand":
		if a.isConst() && a.val == 0 {
			return a
		}
		if b.isConst() && b.val == 0 {
			return b
		}
		if a.isConst() && a.val == maskW(w) {
			return b
		}
		if b.isConst() && b.val == maskW(w) {
			return a
		}
		if a == b {
			return a
		}
	case "bvmul":
		if a.isConst() && a.val == 1 {
			return b
		}
		if b.isConst() && b.val == 1 {
			return a
		}
		if (a.isConst() && a.val == 0) || (b.isConst() && b.val == 0) {
			return p.BV(0, w)
		}
	case "bvudiv":
		if b.isConst() && b.val == 1 {
			return a
		}
	}
	return p.mk(op, a.sort, a, b)
}

func (p *termPool) BVNot(a *Term) *Term {
	if isTree(a) {
		return p.mapLeaves(a, func(c *Term) *Term { return p.BVNot(c) }, map[int]*Term{})
	}
	if a.isConst() {
		return p.BV(^a.val, a.sort.w)
	}
	return p.mk("bvnot", a.sort, a)
}

func (p *termPool) BVNeg(a *Term) *Term {
	if isTree(a) {
		return p.mapLeaves(a, func(c *Term) *Term { return p.BVNeg(c) }, map[int]*Term{})
	}
	if a.isConst() {
		return p.BV(-a.val, a.sort.w)
	}
	return p.mk("bvneg", a.sort, a)
}

func (p *termPool) BVCmp(op string, a, b *Term) *Term {
	w := a.sort.w
	if isTree(a) && b.isConst() {
		return p.mapLeaves(a, func(c *Term) *Term { return p.BVCmp(op, c, b) }, map[int]*Term{})
	}
	if isTree(b) && a.isConst() {
		return p.mapLeaves(b, func(c *Term) *Term { return p.BVCmp(op, a, c) }, map[int]*Term{})
	}
	if a.isConst() && b.isConst() {
		var r bool
		switch op {
		case "bvult":
			r = a.val < b.val
		case "bvule":
			r = a.val <= b.val
		case "bvugt":
			r = a.val > b.val
		case "bvuge":
			r = a.val >= b.val
		case "bvslt":
			r = sext(a.val, w) < sext(b.val, w)
		case "bvsle":
			r = sext(a.val, w) <= sext(b.val, w)
		case "bvsgt":
			r = sext(a.val, w) > sext(b.val, w)
		case "bvsge":
			r = sext(a.val, w) >= sext(b.val, w)
		}
		return p.Bool(r)
	}
	if a == b {
		switch op {
		case "bvule", "bvuge", "bvsle", "bvsge":
			return p.Bool(true)
		default:
			return p.Bool(false)
		}
	}
	return p.mk(op, boolSort, a, b)
}

func (p *termPool) Extract(hi, lo int, a *Term) *Term {
	if lo == 0 && hi == a.sort.w-1 {
		return a
	}
	if a.isConst() {
		return p.BV(a.val>>uint(lo), hi-lo+1)
	}
	if isTree(a) {
		return p.mapLeaves(a, func(c *Term) *Term { return p.Extract(hi, lo, c) }, map[int]*Term{})
	}
	if (a.op[0] == '(' && strings.HasPrefix(a.op, "(_ zero_extend") || strings.HasPrefix(a.op, "(_ sign_extend")) && lo == 0 {
		inner := a.args[0]
		if hi+1 == inner.sort.w {
			return inner
		}
		if hi+1 < inner.sort.w {
			return p.Extract(hi, 0, inner)
		}
	}
	return p.mk(fmt.Sprintf("(_ extract %d %d)", hi, lo), bvSort(hi-lo+1), a)
}

func (p *termPool) ZExt(a *Term, w int) *Term {
	if w == a.sort.w {
		return a
	}
	if w < a.sort.w {
		return p.Extract(w-1, 0, a)
	}
	if a.isConst() {
		return p.BV(a.val, w)
	}
	if isTree(a) {
		return p.mapLeaves(a, func(c *Term) *Term { return p.ZExt(c, w) }, map[int]*Term{})
	}
	return p.mk(fmt.Sprintf("(_ zero_extend %d)", w-a.sort.w), bvSort(w), a)
}

func (p *termPool) SExt(a *Term, w int) *Term {
	if w == a.sort.w {
		return a
	}
	if w < a.sort.w {
		return p.Extract(w-1, 0, a)
	}
	if a.isConst() {
		return p.BV(uint64(sext(a.val, a.sort.w)), w)
	}
	if isTree(a) {
		return p.mapLeaves(a, func(c *Term) *Term { return p.SExt(c, w) }, map[int]*Term{})
	}
	return p.mk(fmt.Sprintf("(_ sign_extend %d)", w-a.sort.w), bvSort(w), a)
}

func (p *termPool) Concat(hi, lo *Term) *Term {
	w := hi.sort.w + lo.sort.w
	if hi.isConst() && lo.isConst() && w <= 64 {
		return p.BV(hi.val<<uint(lo.sort.w)|lo.val, w)
	}
	return p.mk("concat", bvSort(w), hi, lo)
}

// ---- Floating point ----

func (p *termPool) FPBin(op string, a, b *Term) *Term { // fp.add etc. with RNE
	return p.mk(op+" RNE", a.sort, a, b)
}

func (p *termPool) FPCmp(op string, a, b *Term) *Term {
	if r := p.dyadicCmp(op, a, b); r != nil {
		return r
	}
	if b.isConst() && a.isConst() {
		x, y := math.Float64frombits(a.val), math.Float64frombits(b.val)
		if a.sort.w == 32 {
			x, y = float64(math.Float32frombits(uint32(a.val))), float64(math.Float32frombits(uint32(b.val)))
		}
		switch op {
		case "fp.eq":
			return p.Bool(x == y)
		case "fp.lt":
			return p.Bool(x < y)
		case "fp.leq":
			return p.Bool(x <= y)
		case "fp.gt":
			return p.Bool(x > y)
		case "fp.geq":
			return p.Bool(x >= y)
		}
	}
	return p.mk(op, boolSort, a, b)
}

// dyadicCmp rewrites a comparison between float64(x)*2^-k (x an unsigned integer below 2^53,
// so both the conversion and the scaling are exact) and a float64 constant c into an integer
// comparison on x:  x*2^-k >= c  <=>  x >= ceil(c*2^k), and so on. Exact, no rounding involved.
func (p *termPool) dyadicCmp(op string, a, b *Term) *Term {
	if a.sort.w != 64 {
		return nil
	}
	flip := map[string]string{"fp.lt": "fp.gt", "fp.gt": "fp.lt", "fp.leq": "fp.geq", "fp.geq": "fp.leq", "fp.eq": "fp.eq"}
	if a.isConst() && !b.isConst() {
		a, b = b, a
		op = flip[op]
	}
	if !b.isConst() || a.isConst() {
		return nil
	}
	x, k, ok := dyadicParts(a)
	if !ok {
		return nil
	}
	c := math.Float64frombits(b.val)
	if c != c {
		return p.Bool(false)
	}
	w := x.sort.w
	ub := upperBound(x)
	if math.IsInf(c, 1) {
		return p.Bool(op == "fp.lt" || op == "fp.leq")
	}
	if math.IsInf(c, -1) {
		return p.Bool(op == "fp.gt" || op == "fp.geq")
	}
	// s = c * 2^k exactly
	sv := new(big.Float).SetPrec(2000).SetFloat64(c)
	sv.SetMantExp(sv, k)
	fl, _ := new(big.Float).SetPrec(2000).Copy(sv).Int(nil) // truncated toward zero
	isInt := new(big.Float).SetPrec(2000).SetInt(fl).Cmp(sv) == 0
	floor := new(big.Int).Set(fl)
	ceil := new(big.Int).Set(fl)
	if !isInt {
		if sv.Sign() < 0 {
			floor.Sub(floor, big.NewInt(1))
		} else {
			ceil.Add(ceil, big.NewInt(1))
		}
	}
	ubig := new(big.Int).SetUint64(ub)
	geq := func(n *big.Int) *Term { // x >= n
		if n.Sign() <= 0 {
			return p.Bool(true)
		}
		if n.Cmp(ubig) > 0 {
			return p.Bool(false)
		}
		return p.BVCmp("bvuge", x, p.BV(n.Uint64(), w))
	}
	leq := func(n *big.Int) *Term { // x <= n
		if n.Sign() < 0 {
			return p.Bool(false)
		}
		if n.Cmp(ubig) >= 0 {
			return p.Bool(true)
		}
		return p.BVCmp("bvule", x, p.BV(n.Uint64(), w))
	}
	switch op {
	case "fp.geq":
		return geq(ceil)
	case "fp.gt":
		return geq(new(big.Int).Add(floor, big.NewInt(1)))
	case "fp.leq":
		return leq(floor)
	case "fp.lt":
		return leq(new(big.Int).Sub(ceil, big.NewInt(1)))
	case "fp.eq":
		if !isInt || floor.Sign() < 0 || floor.Cmp(ubig) > 0 {
			return p.Bool(false)
		}
		return p.Eq(x, p.BV(floor.Uint64(), w))
	}
	return nil
}

// dyadicParts matches float64(x) * 2^-k with x < 2^53.
func dyadicParts(a *Term) (*Term, int, bool) {
	k := 0
	if a.op == "fp.mul RNE" {
		var c *Term
		switch {
		case a.args[1].isConst():
			c, a = a.args[1], a.args[0]
		case a.args[0].isConst():
			c, a = a.args[0], a.args[1]
		default:
			return nil, 0, false
		}
		f := math.Float64frombits(c.val)
		fr, e := math.Frexp(f)
		if fr != 0.5 || f <= 0 { // not a positive power of two
			return nil, 0, false
		}
		k = -(e - 1)
		if k < 0 || k > 900 {
			return nil, 0, false
		}
	}
	if !strings.HasPrefix(a.op, "(_ to_fp_unsigned 11 53)") {
		return nil, 0, false
	}
	x := a.args[0]
	if upperBound(x) >= 1<<53 {
		return nil, 0, false
	}
	return x, k, true
}

func (p *termPool) FPNeg(a *Term) *Term { return p.mk("fp.neg", a.sort, a) }

func (p *termPool) FPFromUBV(a *Term, w int) *Term {
	s := f64Sort
	op := "(_ to_fp_unsigned 11 53) RNE"
	if w == 32 {
		s = f32Sort
		op = "(_ to_fp_unsigned 8 24) RNE"
	}
	return p.mk(op, s, a)
}

func (p *termPool) FPFromSBV(a *Term, w int) *Term {
	s := f64Sort
	op := "(_ to_fp 11 53) RNE"
	if w == 32 {
		s = f32Sort
		op = "(_ to_fp 8 24) RNE"
	}
	return p.mk(op, s, a)
}

func (p *termPool) FPFromBits(a *Term) *Term {
	if a.isConst() {
		return p.FP(a.val, a.sort.w)
	}
	s := f64Sort
	op := "(_ to_fp 11 53)"
	if a.sort.w == 32 {
		s = f32Sort
		op = "(_ to_fp 8 24)"
	}
	return p.mk(op, s, a)
}

func (p *termPool) FPToFP(a *Term, w int) *Term {
	if a.sort.w == w {
		return a
	}
	s := f64Sort
	op := "(_ to_fp 11 53) RNE"
	if w == 32 {
		s = f32Sort
		op = "(_ to_fp 8 24) RNE"
	}
	return p.mk(op, s, a)
}

func (p *termPool) FPToUBV(a *Term, w int) *Term {
	return p.mk(fmt.Sprintf("(_ fp.to_ubv %d) RTZ", w), bvSort(w), a)
}

func (p *termPool) FPToSBV(a *Term, w int) *Term {
	return p.mk(fmt.Sprintf("(_ fp.to_sbv %d) RTZ", w), bvSort(w), a)
}

func (p *termPool) FPIsNaN(a *Term) *Term { return p.mk("fp.isNaN", boolSort, a) }

// ---- printing ----

func bvLit(v uint64, w int) string {
	if w%4 == 0 {
		return fmt.Sprintf("#x%0*x", w/4, v&maskW(w))
	}
	return fmt.Sprintf("#b%0*b", w, v&maskW(w))
}

func fpLit(bitsv uint64, w int) string {
	if w == 32 {
		b := uint32(bitsv)
		return fmt.Sprintf("(fp #b%b #b%08b #b%023b)", b>>31, (b>>23)&0xff, b&0x7fffff)
	}
	return fmt.Sprintf("(fp #b%b #b%011b #b%052b)", bitsv>>63, (bitsv>>52)&0x7ff, bitsv&(1<<52-1))
}

func (t *Term) leafString() string {
	switch t.op {
	case "var":
		return "|" + t.name + "|"
	case "const":
		switch t.sort.k {
		case sBool:
			if t.val == 1 {
				return "true"
			}
			return "false"
		case sBV:
			return bvLit(t.val, t.sort.w)
		case sFP:
			return fpLit(t.val, t.sort.w)
		}
	}
	return ""
}

func (t *Term) ref() string {
	if s := t.leafString(); s != "" {
		return s
	}
	return fmt.Sprintf("t%d", t.id)
}

// body prints "(op arg-refs...)".
func (t *Term) body() string {
	var sb strings.Builder
	sb.WriteByte('(')
	sb.WriteString(t.op)
	for _, a := range t.args {
		sb.WriteByte(' ')
		sb.WriteString(a.ref())
	}
	sb.WriteByte(')')
	return sb.String()
}

// String prints the full (unshared) expression; for diagnostics only.
func (t *Term) String() string {
	if s := t.leafString(); s != "" {
		return s
	}
	if t.size > 60 {
		return fmt.Sprintf("<term#%d size=%d %s>", t.id, t.size, t.op)
	}
	var sb strings.Builder
	sb.WriteByte('(')
	sb.WriteString(t.op)
	for _, a := range t.args {
		sb.WriteByte(' ')
		sb.WriteString(a.String())
	}
	sb.WriteByte(')')
	return sb.String()
}

var _ = bits.Len64
