package interp

// Symbolic scalars and the Go operators over them.

import (
	"fmt"
	"go/token"
	"go/types"
	"math"
)

// sym is a symbolic scalar of Go basic kind k.
type sym struct {
	t *Term
	k types.BasicKind
}

func kindOf(t types.Type) types.BasicKind {
	if b, ok := t.Underlying().(*types.Basic); ok {
		k := b.Kind()
		switch k {
		case types.UntypedBool:
			return types.Bool
		case types.UntypedInt:
			return types.Int
		case types.UntypedRune:
			return types.Int32
		case types.UntypedFloat:
			return types.Float64
		}
		return k
	}
	return types.Invalid
}

func kindWidth(k types.BasicKind) int {
	switch k {
	case types.Int8, types.Uint8:
		return 8
	case types.Int16, types.Uint16:
		return 16
	case types.Int32, types.Uint32, types.Float32:
		return 32
	case types.Int, types.Int64, types.Uint, types.Uint64, types.Uintptr, types.Float64:
		return 64
	}
	return 0
}

func kindSigned(k types.BasicKind) bool {
	switch k {
	case types.Int, types.Int8, types.Int16, types.Int32, types.Int64:
		return true
	}
	return false
}

func kindIsInt(k types.BasicKind) bool {
	switch k {
	case types.Int, types.Int8, types.Int16, types.Int32, types.Int64,
		types.Uint, types.Uint8, types.Uint16, types.Uint32, types.Uint64, types.Uintptr:
		return true
	}
	return false
}

func kindIsFloat(k types.BasicKind) bool { return k == types.Float32 || k == types.Float64 }

func isSym(v value) bool { _, ok := v.(sym); return ok }

// containsSym reports whether v (a comparable value) has a symbolic part.
func containsSym(v value) bool {
	switch v := v.(type) {
	case sym:
		return true
	case structure:
		for _, f := range v {
			if containsSym(f) {
				return true
			}
		}
	case array:
		for _, f := range v {
			if containsSym(f) {
				return true
			}
		}
	case iface:
		return containsSym(v.v)
	}
	return false
}

// concreteOfKind builds the Go value of kind k with bit pattern u.
func concreteOfKind(k types.BasicKind, u uint64) value {
	switch k {
	case types.Bool:
		return u != 0
	case types.Int:
		return int(u)
	case types.Int8:
		return int8(u)
	case types.Int16:
		return int16(u)
	case types.Int32:
		return int32(u)
	case types.Int64:
		return int64(u)
	case types.Uint:
		return uint(u)
	case types.Uint8:
		return uint8(u)
	case types.Uint16:
		return uint16(u)
	case types.Uint32:
		return uint32(u)
	case types.Uint64:
		return u
	case types.Uintptr:
		return uintptr(u)
	case types.Float32:
		return math.Float32frombits(uint32(u))
	case types.Float64:
		return math.Float64frombits(u)
	}
	panic(fmt.Sprintf("concreteOfKind: kind %v", k))
}

// bitsOf returns the bit pattern of a concrete scalar.
func bitsOf(v value) (uint64, types.BasicKind, bool) {
	switch x := v.(type) {
	case bool:
		if x {
			return 1, types.Bool, true
		}
		return 0, types.Bool, true
	case int:
		return uint64(x), types.Int, true
	case int8:
		return uint64(x), types.Int8, true
	case int16:
		return uint64(x), types.Int16, true
	case int32:
		return uint64(x), types.Int32, true
	case int64:
		return uint64(x), types.Int64, true
	case uint:
		return uint64(x), types.Uint, true
	case uint8:
		return uint64(x), types.Uint8, true
	case uint16:
		return uint64(x), types.Uint16, true
	case uint32:
		return uint64(x), types.Uint32, true
	case uint64:
		return x, types.Uint64, true
	case uintptr:
		return uint64(x), types.Uintptr, true
	case float32:
		return uint64(math.Float32bits(x)), types.Float32, true
	case float64:
		return math.Float64bits(x), types.Float64, true
	}
	return 0, 0, false
}

// termOf lifts a scalar value (concrete or symbolic) to a term.
func (e *Exec) termOf(v value) *Term {
	if s, ok := v.(sym); ok {
		return s.t
	}
	u, k, ok := bitsOf(v)
	if !ok {
		e.unsupported("termOf: %T is not a scalar", v)
	}
	switch {
	case k == types.Bool:
		return e.pool.Bool(u != 0)
	case kindIsFloat(k):
		return e.pool.FP(u, kindWidth(k))
	}
	return e.pool.BV(u, kindWidth(k))
}

// mkval wraps a term as a value, collapsing constants to concrete Go values.
func (e *Exec) mkval(t *Term, k types.BasicKind) value {
	if t.isConst() {
		return concreteOfKind(k, t.val)
	}
	return sym{t, k}
}

func (i *interpreter) symBinop(fr *frame, op token.Token, t types.Type, x, y value) value {
	e := i.ex
	p := e.pool
	k := kindOf(t)
	if k == types.Invalid || k == types.String {
		// comparison of composite values with symbolic parts
		switch op {
		case token.EQL:
			return e.mkval(i.symEq(t, x, y), types.Bool)
		case token.NEQ:
			return e.mkval(p.Not(i.symEq(t, x, y)), types.Bool)
		}
		e.unsupported("symbolic binop %s on %s", op, t)
	}
	a := e.termOf(x)
	switch op {
	case token.SHL, token.SHR:
		return i.symShift(op, k, a, y)
	}
	b := e.termOf(y)
	if k == types.Bool {
		switch op {
		case token.EQL:
			return e.mkval(p.Eq(a, b), types.Bool)
		case token.NEQ:
			return e.mkval(p.Not(p.Eq(a, b)), types.Bool)
		case token.LAND, token.AND:
			return e.mkval(p.And(a, b), types.Bool)
		case token.LOR, token.OR:
			return e.mkval(p.Or(a, b), types.Bool)
		}
		e.unsupported("bool binop %s", op)
	}
	if kindIsFloat(k) {
		switch op {
		case token.ADD:
			return e.mkval(p.FPBin("fp.add", a, b), k)
		case token.SUB:
			return e.mkval(p.FPBin("fp.sub", a, b), k)
		case token.MUL:
			return e.mkval(p.FPBin("fp.mul", a, b), k)
		case token.QUO:
			return e.mkval(p.FPBin("fp.div", a, b), k)
		case token.EQL:
			return e.mkval(p.FPCmp("fp.eq", a, b), types.Bool)
		case token.NEQ:
			return e.mkval(p.Not(p.FPCmp("fp.eq", a, b)), types.Bool)
		case token.LSS:
			return e.mkval(p.FPCmp("fp.lt", a, b), types.Bool)
		case token.LEQ:
			return e.mkval(p.FPCmp("fp.leq", a, b), types.Bool)
		case token.GTR:
			return e.mkval(p.FPCmp("fp.gt", a, b), types.Bool)
		case token.GEQ:
			return e.mkval(p.FPCmp("fp.geq", a, b), types.Bool)
		}
		e.unsupported("float binop %s", op)
	}
	signed := kindSigned(k)
	cmp := func(u, s string) value {
		if signed {
			return e.mkval(p.BVCmp(s, a, b), types.Bool)
		}
		return e.mkval(p.BVCmp(u, a, b), types.Bool)
	}
	switch op {
	case token.ADD:
		return e.mkval(p.BVBin("bvadd", a, b), k)
	case token.SUB:
		return e.mkval(p.BVBin("bvsub", a, b), k)
	case token.MUL:
		return e.mkval(p.BVBin("bvmul", a, b), k)
	case token.QUO, token.REM:
		// division by zero panics
		zero := p.BV(0, a.sort.w)
		if e.Branch(p.Eq(b, zero)) {
			panic(runtimeError("integer divide by zero"))
		}
		var o string
		switch {
		case op == token.QUO && signed:
			o = "bvsdiv"
		case op == token.QUO:
			o = "bvudiv"
		case signed:
			o = "bvsrem"
		default:
			o = "bvurem"
		}
		return e.mkval(p.BVBin(o, a, b), k)
	case token.AND:
		return e.mkval(p.BVBin("bvand", a, b), k)
	case token.OR:
		return e.mkval(p.BVBin("bvor", a, b), k)
	case token.XOR:
		return e.mkval(p.BVBin("bvxor", a, b), k)
	case token.AND_NOT:
		return e.mkval(p.BVBin("bvand", a, p.BVNot(b)), k)
	case token.EQL:
		return e.mkval(p.Eq(a, b), types.Bool)
	case token.NEQ:
		return e.mkval(p.Not(p.Eq(a, b)), types.Bool)
	case token.LSS:
		return cmp("bvult", "bvslt")
	case token.LEQ:
		return cmp("bvule", "bvsle")
	case token.GTR:
		return cmp("bvugt", "bvsgt")
	case token.GEQ:
		return cmp("bvuge", "bvsge")
	}
	e.unsupported("int binop %s", op)
	return nil
}

type runtimeError string

func (r runtimeError) Error() string { return "runtime error: " + string(r) }
func (r runtimeError) RuntimeError() {}

func (i *interpreter) symShift(op token.Token, k types.BasicKind, a *Term, y value) value {
	e := i.ex
	p := e.pool
	var b *Term
	var yk types.BasicKind
	if s, ok := y.(sym); ok {
		b, yk = s.t, s.k
	} else {
		u, kk, _ := bitsOf(y)
		b, yk = p.BV(u, kindWidth(kk)), kk
	}
	if kindSigned(yk) {
		if e.Branch(p.BVCmp("bvslt", b, p.BV(0, b.sort.w))) {
			panic(runtimeError("negative shift amount"))
		}
	}
	wx, wy := a.sort.w, b.sort.w
	W := wx
	if wy > W {
		W = wy
	}
	var ax *Term
	if kindSigned(k) {
		ax = p.SExt(a, W)
	} else {
		ax = p.ZExt(a, W)
	}
	bx := p.ZExt(b, W)
	var r *Term
	switch {
	case op == token.SHL:
		r = p.BVBin("bvshl", ax, bx)
	case kindSigned(k):
		r = p.BVBin("bvashr", ax, bx)
	default:
		r = p.BVBin("bvlshr", ax, bx)
	}
	return e.mkval(p.Extract(wx-1, 0, r), k)
}

// symEq builds the term for x == y at type t (scalars, structs, arrays, interfaces, strings).
func (i *interpreter) symEq(t types.Type, x, y value) *Term {
	e := i.ex
	p := e.pool
	switch xv := x.(type) {
	case structure:
		yv := y.(structure)
		st := t.Underlying().(*types.Struct)
		r := p.Bool(true)
		for j := range xv {
			if st.Field(j).Name() == "_" {
				continue
			}
			r = p.And(r, i.symEq(st.Field(j).Type(), xv[j], yv[j]))
		}
		return r
	case array:
		yv := y.(array)
		et := t.Underlying().(*types.Array).Elem()
		r := p.Bool(true)
		for j := range xv {
			r = p.And(r, i.symEq(et, xv[j], yv[j]))
		}
		return r
	case iface:
		yv := y.(iface)
		if !sameType(xv.t, yv.t) {
			return p.Bool(false)
		}
		if xv.t == nil {
			return p.Bool(true)
		}
		return i.symEq(xv.t, xv.v, yv.v)
	}
	if isSym(x) || isSym(y) {
		return p.Eq(e.termOf(x), e.termOf(y))
	}
	return p.Bool(equals(t, x, y))
}

func (i *interpreter) symUnop(op token.Token, t types.Type, x sym) value {
	e := i.ex
	p := e.pool
	switch op {
	case token.NOT:
		return e.mkval(p.Not(x.t), types.Bool)
	case token.SUB:
		if kindIsFloat(x.k) {
			return e.mkval(p.FPNeg(x.t), x.k)
		}
		return e.mkval(p.BVNeg(x.t), x.k)
	case token.XOR:
		return e.mkval(p.BVNot(x.t), x.k)
	}
	e.unsupported("symbolic unop %s", op)
	return nil
}

func (i *interpreter) symConv(tdst, tsrc types.Type, x sym) value {
	e := i.ex
	p := e.pool
	dk := kindOf(tdst)
	sk := x.k
	switch {
	case kindIsInt(dk) && kindIsInt(sk):
		wd := kindWidth(dk)
		if kindSigned(sk) {
			return e.mkval(p.SExt(x.t, wd), dk)
		}
		return e.mkval(p.ZExt(x.t, wd), dk)
	case kindIsFloat(dk) && kindIsInt(sk):
		// an integer with a small finite domain (e.g. a bit length) is case-split, so that
		// float arithmetic on it is exact native arithmetic
		if _, ok := smallDomain(x.t, 130); ok {
			u := e.Concretize(x.t)
			return conv(tdst, tsrc, concreteOfKind(sk, u))
		}
		// Go converts via the source integer type, rounding to nearest even
		if kindSigned(sk) {
			return e.mkval(p.FPFromSBV(x.t, kindWidth(dk)), dk)
		}
		return e.mkval(p.FPFromUBV(x.t, kindWidth(dk)), dk)
	case kindIsInt(dk) && kindIsFloat(sk):
		if containsNative(x.t, map[int]bool{}) {
			return e.mkval(i.summariseFloatToUint(x.t, kindWidth(dk)), dk)
		}
		if kindSigned(dk) {
			return e.mkval(p.FPToSBV(x.t, kindWidth(dk)), dk)
		}
		return e.mkval(p.FPToUBV(x.t, kindWidth(dk)), dk)
	case kindIsFloat(dk) && kindIsFloat(sk):
		return e.mkval(p.FPToFP(x.t, kindWidth(dk)), dk)
	case dk == types.Bool && sk == types.Bool:
		return x
	}
	e.unsupported("symbolic conversion %s -> %s", tsrc, tdst)
	return nil
}

// concretizeInt turns an integer value into a concrete int64 (forking if symbolic).
func (i *interpreter) concretizeInt(v value) value {
	s, ok := v.(sym)
	if !ok {
		return v
	}
	if s.k == types.Bool {
		return i.ex.Branch(s.t)
	}
	u := i.ex.Concretize(s.t)
	return concreteOfKind(s.k, u)
}
