package interp

// Stubs for runtime (tracebacks), time (symbolic clock) and log.

import (
	"fmt"
	"go/token"
	"go/types"
	"strings"

	"golang.org/x/tools/go/ssa"
)

// runtimeFuncName renders fn the way the Go runtime names functions in tracebacks.
func runtimeFuncName(fn *ssa.Function) string {
	// closures: parent.funcN (N counted per outermost function in source order; we use the ssa index)
	if p := fn.Parent(); p != nil {
		name := fn.Name() // e.g. checkOnce$1
		idx := name
		if k := strings.LastIndex(name, "$"); k >= 0 {
			idx = name[k+1:]
		}
		return runtimeFuncName(p) + ".func" + idx
	}
	pkg := ""
	if fn.Pkg != nil {
		pkg = fn.Pkg.Pkg.Path()
	} else if o := fn.Origin(); o != nil && o.Pkg != nil {
		pkg = o.Pkg.Pkg.Path()
	}
	name := fn.Name()
	if k := strings.Index(name, "["); k >= 0 { // generic instance: drop type arguments
		name = name[:k] + "[...]"
	}
	if recv := fn.Signature.Recv(); recv != nil {
		rt := recv.Type()
		ptr := false
		if p, ok := rt.(*types.Pointer); ok {
			ptr = true
			rt = p.Elem()
		}
		tn := rt.String()
		if n, ok := rt.(*types.Named); ok {
			tn = n.Obj().Name()
			if n.TypeArgs() != nil && n.TypeArgs().Len() > 0 {
				tn += "[...]"
			}
		}
		if ptr {
			return fmt.Sprintf("%s.(*%s).%s", pkg, tn, fn.Name())
		}
		return fmt.Sprintf("%s.%s.%s", pkg, tn, fn.Name())
	}
	if pkg == "" {
		return name
	}
	return pkg + "." + name
}

func registerRuntimeStubs(sh *Shared) {
	reg := func(name string, f externalFn) { sh.ext[name] = f }

	// runtime.Callers(skip, pc) fills pc with indices into the interpreter's pc table.
	reg("runtime.Callers", func(fr *frame, args []value) value {
		i := fr.i
		skip := int(asInt64(args[0]))
		pc := args[1].([]value)
		// stack as the Go runtime would see it: Callers itself, then our callers;
		// if a frame is running its deferred calls because of a panic, the
		// panicking frames are still on the stack below runtime.gopanic.
		st := []stackEntry{{syn: "runtime.Callers"}}
		for f := fr.caller; f != nil; f = f.caller {
			if f.inPanicDefers {
				pv, _ := f.panic.(*panicVal)
				if pv == nil {
					pv = f.recovered
				}
				if pv != nil {
					st = append(st, stackEntry{syn: "runtime.gopanic"})
					st = append(st, pv.stack...)
					break
				}
			}
			st = append(st, stackEntry{fn: f.fn, pos: f.pos()})
		}
		if skip > len(st) {
			skip = len(st)
		}
		st = st[skip:]
		n := 0
		tab := i.side()
		for n < len(pc) && n < len(st) {
			tab.pcs = append(tab.pcs, st[n])
			pc[n] = uintptr(len(tab.pcs)) // 1-based
			n++
		}
		return n
	})
	reg("runtime.CallersFrames", func(fr *frame, args []value) value {
		i := fr.i
		pcs := args[0].([]value)
		fs := &framesState{}
		for _, p := range pcs {
			idx := int(p.(uintptr))
			if idx >= 1 && idx <= len(i.side().pcs) {
				fs.entries = append(fs.entries, i.side().pcs[idx-1])
			}
		}
		ft := sh.prog.ImportedPackage("runtime").Type("Frames").Type()
		cell := zero(ft)
		ptr := &cell
		i.side().frames[ptr] = fs
		return ptr
	})
	reg("(*runtime.Frames).Next", func(fr *frame, args []value) value {
		i := fr.i
		fs := i.side().frames[args[0].(*value)]
		ft := sh.prog.ImportedPackage("runtime").Type("Frame").Type()
		f := zero(ft).(structure)
		if fs == nil || fs.next >= len(fs.entries) {
			return tuple{f, false}
		}
		e := fs.entries[fs.next]
		fs.next++
		if e.fn != nil {
			p := sh.prog.Fset.Position(e.pos)
			f[fieldIndex(ft, "Function")] = runtimeFuncName(e.fn)
			f[fieldIndex(ft, "File")] = p.Filename
			f[fieldIndex(ft, "Line")] = p.Line
		} else {
			f[fieldIndex(ft, "Function")] = e.syn
		}
		return tuple{f, fs.next < len(fs.entries)}
	})
}

// ---------------------------------------------------------------------
// time: a symbolic, monotonically non-decreasing clock. A time.Time produced by
// Now() is {wall:0, ext:<seconds>, loc:nil}; seconds stay small so that
// Add/Before/After (interpreted from their real SSA) cannot overflow.

const clockBase = 63_000_000_000 // seconds; arbitrary, far from int64 limits

func registerTimeStubs(sh *Shared) {
	reg := func(name string, f externalFn) { sh.ext[name] = f }
	reg("time.Now", func(fr *frame, args []value) value {
		i := fr.i
		e := i.ex
		tt := sh.prog.ImportedPackage("time").Type("Time").Type()
		t := zero(tt).(structure)
		var sec value
		if e.concrete != nil && i.symClock {
			// concrete replay of a model found with the symbolic clock: the instants of the model
			sec = i.nondet("env.now", types.Int64, "I64")
		} else if !i.symClock {
			i.clockTick++
			sec = int64(clockBase + i.clockTick)
		} else {
			v := i.nondet("env.now", types.Int64, "I64").(sym)
			lo := e.pool.BV(uint64(clockBase), 64)
			var prev *Term = lo
			if i.lastNow != nil {
				prev = i.lastNow
			}
			e.addPC(e.pool.BVCmp("bvsge", v.t, prev))
			e.addPC(e.pool.BVCmp("bvsle", v.t, e.pool.BV(uint64(clockBase+1_000_000_000), 64)))
			i.lastNow = v.t
			sec = v
		}
		t[fieldIndex(tt, "ext")] = sec
		return t
	})
	reg("time.Since", func(fr *frame, args []value) value {
		i := fr.i
		if i.ex.concrete != nil && i.symClock {
			return i.nondet("env.since", types.Int64, "I64")
		}
		if !i.symClock {
			return int64(1000)
		}
		v := i.nondet("env.since", types.Int64, "I64").(sym)
		e := i.ex
		e.addPC(e.pool.BVCmp("bvsge", v.t, e.pool.BV(0, 64)))
		e.addPC(e.pool.BVCmp("bvsle", v.t, e.pool.BV(1<<40, 64)))
		return v
	})
	reg("time.Until", func(fr *frame, args []value) value {
		i := fr.i
		if i.ex.concrete != nil && i.symClock {
			return i.nondet("env.until", types.Int64, "I64")
		}
		if !i.symClock {
			return int64(1) << 50
		}
		v := i.nondet("env.until", types.Int64, "I64").(sym)
		e := i.ex
		e.addPC(e.pool.BVCmp("bvsge", v.t, e.pool.BV(^uint64(1<<40)+1, 64)))
		e.addPC(e.pool.BVCmp("bvsle", v.t, e.pool.BV(1<<50, 64)))
		return v
	})
	// Formatting a timestamp: constant by default; after tickingTimestamps(true) the wall clock may
	// cross a second boundary between any two readings (a case split per formatted timestamp)
	reg("(time.Time).Format", func(fr *frame, args []value) value {
		if fr.i.tsTicking {
			if fr.i.chooseNamed("env.second-boundary", 2) == 1 {
				fr.i.tsSecond++
			}
		}
		return fmt.Sprintf("202601010000%02d", fr.i.tsSecond%60)
	})
	reg(mainPath+".tickingTimestamps", func(fr *frame, args []value) value {
		fr.i.tsTicking = args[0].(bool)
		return nil
	})
	reg("(time.Duration).String", func(fr *frame, args []value) value {
		if _, ok := args[0].(sym); ok {
			return "‹duration›"
		}
		return fmt.Sprintf("%dns", asInt64(args[0]))
	})
}

// ---------------------------------------------------------------------
// log.Logger: Printf/Print format natively and write to the interpreted writer.

func registerLogStubs(sh *Shared) {
	reg := func(name string, f externalFn) { sh.ext[name] = f }
	reg("log.New", func(fr *frame, args []value) value {
		lt := sh.prog.ImportedPackage("log").Type("Logger").Type()
		cell := zero(lt)
		ptr := &cell
		fr.i.side().logger[ptr] = &loggerState{w: args[0], prefix: args[1].(string)}
		return ptr
	})
	out := func(fr *frame, l value, s string) {
		st := fr.i.side().logger[l.(*value)]
		if st == nil {
			return
		}
		if !strings.HasSuffix(s, "\n") {
			s += "\n"
		}
		fr.i.writeTo(fr, st.w, "2026/01/01 00:00:00.000000 "+st.prefix+s)
	}
	reg("(*log.Logger).Printf", func(fr *frame, args []value) value {
		out(fr, args[0], fr.i.sprintf(fr, args[1].(string), args[2].([]value)))
		return nil
	})
	reg("(*log.Logger).Print", func(fr *frame, args []value) value {
		out(fr, args[0], fr.i.sprint(fr, args[1].([]value), false))
		return nil
	})
	reg("(*log.Logger).Println", func(fr *frame, args []value) value {
		out(fr, args[0], fr.i.sprint(fr, args[1].([]value), true))
		return nil
	})
}

// ---------------------------------------------------------------------
// sequential-mode placeholders for the concurrency hooks (see sched.go)

var _ = token.NoPos
