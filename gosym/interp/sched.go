package interp

// Goroutines. Sequential mode: one goroutine; blocking is a deadlock.
// Concurrent mode (see conc.go) replaces these hooks.

import (
	"go/token"

	"golang.org/x/tools/go/ssa"
)

type gthread struct {
	id int
	vc []int
}

type scheduler struct{}

func (i *interpreter) runMain(fn *ssa.Function) {
	call(i, nil, token.NoPos, fn, nil)
}

func (i *interpreter) syncPoint(fr *frame, what string) {}

func (i *interpreter) blockOn(fr *frame, ready func() bool, what string) {
	if ready() {
		return
	}
	i.ex.res.Obligations++
	v := Violation{Msg: "deadlock: " + what + " blocks forever (sequential execution)", Decisions: len(i.ex.decisions)}
	if i.ex.concrete != nil {
		v.Model, v.Confirmed = i.ex.concrete, true
	} else if i.ex.solver.Check() == Sat {
		v.Model, v.Kinds = i.ex.model()
	}
	i.ex.res.Violations = append(i.ex.res.Violations, v)
	i.ex.abort(EndStopped, "deadlock")
}

func (i *interpreter) hbAcquire(fr *frame, obj value)       {}
func (i *interpreter) hbRelease(fr *frame, obj value)       {}
func (i *interpreter) hbReleaseShared(fr *frame, obj value) {}

func (i *interpreter) onceRunning(p *value) bool { return i.onceRun[p] }
func (i *interpreter) setOnceRunning(p *value, b bool) {
	if i.onceRun == nil {
		i.onceRun = map[*value]bool{}
	}
	i.onceRun[p] = b
}

func (i *interpreter) spawn(fr *frame, pos token.Pos, fn value, args []value) {
	i.ex.unsupported("go statement in sequential mode")
}

func (i *interpreter) memAccess(fr *frame, addr value, write bool) {}
