package interp

// Goroutines.
//
// Sequential mode (no `go` statement executed on the path): one goroutine; blocking is a
// deadlock; the hooks below are no-ops.
//
// Concurrent mode starts with the first `go` statement (or a call of the concurrent()
// intrinsic). Every target goroutine runs on its own Go goroutine, but only the one holding
// the baton executes: control changes hands exclusively at scheduling points, which are the
// synchronisation operations (mutex, once, atomic, sync.Map, WaitGroup, spawn, goroutine end).
// At each such point the next goroutine is a *decision of the path* (a named, bounded
// nondeterministic integer "sched", case-split through the solver like every other small-domain
// variable), so every interleaving of synchronisation operations within the preemption bound
// is explored, and a violating interleaving is part of the reported model.
//
// A vector-clock happens-before monitor watches every load and store of a heap cell the
// target code performs and reports two conflicting accesses that are not ordered by the
// happens-before edges of the Go memory model (unlock->lock, once completion->Do return,
// atomic store->load, WaitGroup Done->Wait, go statement->goroutine start).

import (
	"fmt"
	"go/token"
	"go/types"
	"reflect"
	"strings"
	"sync"

	"golang.org/x/tools/go/ssa"
)

type vclock []int

func (v vclock) get(t int) int {
	if t < len(v) {
		return v[t]
	}
	return 0
}

func (v *vclock) set(t, c int) {
	for len(*v) <= t {
		*v = append(*v, 0)
	}
	(*v)[t] = c
}

func (v *vclock) join(o vclock) {
	for t, c := range o {
		if c > v.get(t) {
			v.set(t, c)
		}
	}
}

func (v vclock) clone() vclock { return append(vclock(nil), v...) }

type gthread struct {
	id      int
	vc      vclock
	wake    chan struct{}
	started bool
	done    bool
	ready   func() bool // non-nil while blocked
	what    string
	fn      value
	args    []value
	pos     token.Pos
}

type syncClock struct{ w, r vclock }

type accessInfo struct {
	tid int
	clk int
	pos string
}

type cellHistory struct {
	write accessInfo // clk 0: never written (in concurrent mode)
	reads []accessInfo
}

type wgState struct{ n int }

type scheduler struct {
	i          *interpreter
	threads    []*gthread
	cur        *gthread
	dead       bool
	crash      interface{}
	real       sync.WaitGroup
	clocks     map[*value]*syncClock
	cells      map[*value]*cellHistory
	wgs        map[*value]*wgState
	preempt    int
	maxPreempt int
	raced      map[string]bool
	maps       map[interface{}]*value
	points     int
}

func (i *interpreter) ensureSched(maxPreempt int) *scheduler {
	if i.sched == nil {
		s := &scheduler{i: i, clocks: map[*value]*syncClock{}, cells: map[*value]*cellHistory{}, wgs: map[*value]*wgState{}, maxPreempt: maxPreempt, raced: map[string]bool{}}
		main := &gthread{id: 0, wake: make(chan struct{}, 1), started: true}
		main.vc.set(0, 1)
		s.threads = []*gthread{main}
		s.cur = main
		i.sched = s
	}
	return i.sched
}

func (i *interpreter) runMain(fn *ssa.Function) {
	defer func() {
		if s := i.sched; s != nil {
			r := recover()
			s.shutdown()
			if r != nil {
				panic(r)
			}
		}
	}()
	call(i, nil, token.NoPos, fn, nil)
}

// shutdown ends every goroutine that is still parked; called on the main goroutine.
func (s *scheduler) shutdown() {
	s.dead = true
	for _, t := range s.threads[1:] {
		if t.started && !t.done {
			t.done = true
			t.wake <- struct{}{}
		}
	}
	s.real.Wait()
}

type killedPanic struct{}

func (s *scheduler) runnable(except *gthread) []*gthread {
	var out []*gthread
	for _, t := range s.threads {
		if t == except || t.done {
			continue
		}
		if t.ready != nil && !t.ready() {
			continue
		}
		out = append(out, t)
	}
	return out
}

// pick is one scheduling decision among n alternatives.
func (s *scheduler) pick(n int) int {
	if n <= 1 {
		return 0
	}
	s.points++
	return s.i.chooseNamed("sched", n)
}

// switchTo hands the baton to next and parks the calling goroutine until it is chosen again.
func (s *scheduler) switchTo(next *gthread) {
	me := s.cur
	if next == me {
		return
	}
	s.cur = next
	s.resume(next)
	s.park(me)
}

func (s *scheduler) resume(t *gthread) {
	if !t.started {
		t.started = true
		s.real.Add(1)
		go s.runThread(t)
	} else {
		t.wake <- struct{}{}
	}
}

func (s *scheduler) park(me *gthread) {
	<-me.wake
	if s.dead {
		if me.id == 0 {
			c := s.crash
			s.crash = nil
			if c == nil {
				c = pathAbort{EndUnsupported, "scheduler: main goroutine woken after shutdown"}
			}
			panic(c)
		}
		panic(killedPanic{})
	}
}

// fatal is called on a goroutine other than main when the path must end: the reason is
// re-raised on the main goroutine.
func (s *scheduler) fatal(r interface{}) {
	s.crash = r
	s.dead = true
	s.threads[0].wake <- struct{}{}
}

func (s *scheduler) runThread(t *gthread) {
	defer s.real.Done()
	defer func() {
		r := recover()
		if _, ok := r.(killedPanic); ok || (s.dead && s.cur != t) {
			return
		}
		t.done = true
		if pv, ok := r.(*panicVal); ok {
			if _, ok := pv.v.(goexitPanic); ok {
				r = nil
			}
		}
		if pv, ok := r.(*panicVal); ok {
			// an uncaught panic in a goroutine crashes the program
			e := s.i.ex
			msg := describePanic(pv.v)
			v := Violation{Msg: "uncaught panic in goroutine: " + msg, Decisions: len(e.decisions)}
			for _, se := range pv.stack {
				v.Trace = append(v.Trace, s.i.shared.entryString(se))
			}
			if e.concrete != nil {
				v.Model, v.Confirmed = e.concrete, true
			} else if e.solver != nil && e.solver.Check() == Sat {
				v.Model, v.Kinds = e.model()
			}
			e.res.Obligations++
			e.res.Violations = append(e.res.Violations, v)
			r = pathAbort{EndPanic, msg}
		}
		if r != nil {
			s.fatal(r)
			return
		}
		func() {
			defer func() {
				if r2 := recover(); r2 != nil {
					s.fatal(r2)
				}
			}()
			s.threadExit(t)
		}()
	}()
	call(s.i, nil, t.pos, t.fn, t.args)
}

// threadExit passes the baton on when a goroutine's function returned.
func (s *scheduler) threadExit(t *gthread) {
	run := s.runnable(t)
	if len(run) == 0 {
		s.deadlock("every remaining goroutine is blocked after goroutine " + fmt.Sprint(t.id) + " ended")
	}
	next := run[s.pick(len(run))]
	s.cur = next
	s.resume(next)
}

func (s *scheduler) deadlock(what string) {
	e := s.i.ex
	e.res.Obligations++
	v := Violation{Msg: "deadlock: " + what, Decisions: len(e.decisions)}
	if e.concrete != nil {
		v.Model, v.Confirmed = e.concrete, true
	} else if e.solver.Check() == Sat {
		v.Model, v.Kinds = e.model()
	}
	e.res.Violations = append(e.res.Violations, v)
	e.abort(EndStopped, "deadlock")
}

func (i *interpreter) syncPoint(fr *frame, what string) {
	s := i.sched
	if s == nil || len(s.threads) == 1 {
		return
	}
	run := s.runnable(s.cur)
	if len(run) == 0 || s.preempt >= s.maxPreempt {
		return
	}
	k := s.pick(len(run) + 1)
	if k == 0 {
		return
	}
	s.preempt++
	s.switchTo(run[k-1])
}

func (i *interpreter) blockOn(fr *frame, ready func() bool, what string) {
	if ready() {
		return
	}
	s := i.sched
	if s == nil || len(s.threads) == 1 {
		i.ex.res.Obligations++
		v := Violation{Msg: "deadlock: " + what + " blocks forever (sequential execution)", Decisions: len(i.ex.decisions)}
		if i.ex.concrete != nil {
			v.Model, v.Confirmed = i.ex.concrete, true
		} else if i.ex.solver.Check() == Sat {
			v.Model, v.Kinds = i.ex.model()
		}
		i.ex.res.Violations = append(i.ex.res.Violations, v)
		i.ex.abort(EndStopped, "deadlock")
	}
	me := s.cur
	me.ready, me.what = ready, what
	for !ready() {
		run := s.runnable(me)
		if len(run) == 0 {
			s.deadlock(what + " blocks forever: no goroutine can make progress")
		}
		s.switchTo(run[s.pick(len(run))])
	}
	me.ready = nil
}

func (s *scheduler) clockOf(obj value) *syncClock {
	p, _ := obj.(*value)
	c := s.clocks[p]
	if c == nil {
		c = &syncClock{}
		s.clocks[p] = c
	}
	return c
}

func (s *scheduler) tick() {
	t := s.cur
	t.vc.set(t.id, t.vc.get(t.id)+1)
}

func (i *interpreter) hbAcquire(fr *frame, obj value) {
	if s := i.sched; s != nil {
		c := s.clockOf(obj)
		s.cur.vc.join(c.w)
		s.cur.vc.join(c.r)
	}
}

// hbAcquireShared: a read lock is ordered after earlier write unlocks only.
func (i *interpreter) hbAcquireShared(fr *frame, obj value) {
	if s := i.sched; s != nil {
		s.cur.vc.join(s.clockOf(obj).w)
	}
}

func (i *interpreter) hbRelease(fr *frame, obj value) {
	if s := i.sched; s != nil {
		c := s.clockOf(obj)
		c.w.join(s.cur.vc)
		s.tick()
	}
}

func (i *interpreter) hbReleaseShared(fr *frame, obj value) {
	if s := i.sched; s != nil {
		c := s.clockOf(obj)
		c.r.join(s.cur.vc)
		s.tick()
	}
}

func (i *interpreter) onceRunning(p *value) bool { return i.onceRun[p] }
func (i *interpreter) setOnceRunning(p *value, b bool) {
	if i.onceRun == nil {
		i.onceRun = map[*value]bool{}
	}
	i.onceRun[p] = b
}

func (i *interpreter) spawn(fr *frame, pos token.Pos, fn value, args []value) {
	s := i.ensureSched(2)
	if len(s.threads) >= 8 {
		i.ex.unsupported("more than 8 goroutines")
	}
	t := &gthread{id: len(s.threads), wake: make(chan struct{}, 1), fn: fn, args: args, pos: pos}
	t.vc = s.cur.vc.clone()
	t.vc.set(t.id, 1)
	s.tick()
	s.threads = append(s.threads, t)
	i.syncPoint(fr, "go")
}

// memAccess is called for every load and store through a pointer the target code performs.
func (i *interpreter) memAccess(fr *frame, addr value, write bool) {
	s := i.sched
	if s == nil || len(s.threads) == 1 {
		return
	}
	p, ok := addr.(*value)
	if !ok || p == nil {
		return
	}
	if i.shared.isHarnessFn(fr.fn) {
		return // the harness's own bookkeeping is not part of the code under test
	}
	s.access(fr, p, write, 0)
}

// isHarnessFn reports whether fn is defined in an injected harness file (zz_verif_*.go).
func (sh *Shared) isHarnessFn(fn *ssa.Function) bool {
	if v, ok := sh.harnessFn.Load(fn); ok {
		return v.(bool)
	}
	f := fn
	for f.Parent() != nil {
		f = f.Parent()
	}
	if o := f.Origin(); o != nil {
		f = o
	}
	h := false
	if f.Pos() != token.NoPos {
		h = strings.HasPrefix(shortFile(sh.prog.Fset.Position(f.Pos()).Filename), "zz_verif_")
	}
	sh.harnessFn.Store(fn, h)
	return h
}

func (s *scheduler) access(fr *frame, p *value, write bool, depth int) {
	switch v := (*p).(type) {
	case structure:
		if depth < 4 {
			for j := range v {
				s.access(fr, &v[j], write, depth+1)
			}
		}
		return
	case array:
		if depth < 4 && len(v) <= 64 {
			for j := range v {
				s.access(fr, &v[j], write, depth+1)
			}
		}
		return
	}
	me := s.cur
	h := s.cells[p]
	if h == nil {
		h = &cellHistory{}
		s.cells[p] = h
	}
	var pos string
	here := func() string {
		if pos == "" {
			pos = s.i.describePos(fr)
		}
		return pos
	}
	if w := h.write; w.clk != 0 && w.tid != me.id && w.clk > me.vc.get(w.tid) {
		kind := "read"
		if write {
			kind = "write"
		}
		s.race(kind, here(), me.id, "write", w.pos, w.tid)
	}
	if write {
		for _, r := range h.reads {
			if r.tid != me.id && r.clk > me.vc.get(r.tid) {
				s.race("write", here(), me.id, "read", r.pos, r.tid)
			}
		}
		h.write = accessInfo{me.id, me.vc.get(me.id), here()}
		h.reads = h.reads[:0]
		return
	}
	for k := range h.reads {
		if h.reads[k].tid == me.id {
			h.reads[k].clk = me.vc.get(me.id)
			return
		}
	}
	h.reads = append(h.reads, accessInfo{me.id, me.vc.get(me.id), here()})
}

// mapAccess treats a map as one memory location.
func (i *interpreter) mapAccess(fr *frame, m value, write bool) {
	s := i.sched
	if s == nil || len(s.threads) == 1 || i.shared.isHarnessFn(fr.fn) {
		return
	}
	var key *value
	switch m := m.(type) {
	case *hashmap:
		if m == nil {
			return
		}
		key = s.mapCell(m)
	case map[value]value:
		if m == nil {
			return
		}
		key = s.mapCell(reflect.ValueOf(m).Pointer())
	default:
		return
	}
	s.access(fr, key, write, 9)
}

func (s *scheduler) mapCell(id interface{}) *value {
	if s.maps == nil {
		s.maps = map[interface{}]*value{}
	}
	c := s.maps[id]
	if c == nil {
		var v value = "map"
		c = &v
		s.maps[id] = c
	}
	return c
}

func (i *interpreter) describePos(fr *frame) string {
	p := i.prog.Fset.Position(fr.pos())
	return fmt.Sprintf("%s (%s:%d)", fr.fn.String(), shortFile(p.Filename), p.Line)
}

func (s *scheduler) race(kind1, pos1 string, t1 int, kind2, pos2 string, t2 int) {
	// canonical order so that the message does not depend on which side ran first
	a := kind1 + " in " + pos1
	b := kind2 + " in " + pos2
	if b < a {
		a, b = b, a
	}
	msg := "data race: " + a + " is not ordered with " + b
	if s.raced[msg] {
		return
	}
	s.raced[msg] = true
	e := s.i.ex
	e.res.Obligations++
	v := Violation{Msg: msg, Decisions: len(e.decisions)}
	if e.concrete != nil {
		v.Model, v.Confirmed = e.concrete, true
	} else if e.solver.Check() == Sat {
		v.Model, v.Kinds = e.model()
	}
	e.res.Violations = append(e.res.Violations, v)
}

// chooseNamed is the "choose" intrinsic: a named nondeterministic integer in [0,n),
// case-split into separate paths.
func (i *interpreter) chooseNamed(name string, n int) int {
	e := i.ex
	name = e.nondetName(name)
	if e.concrete != nil {
		v := int(e.concrete[name])
		if v < 0 || v >= n {
			e.abort(EndAssume, "choose out of range")
		}
		return v
	}
	// the domain is known exactly, so the case split needs no solver call: fork the n-1
	// alternatives directly and bind the variable on each path (the model then carries it)
	t := e.pool.Var(name, bvSort(64))
	e.nondets = append(e.nondets, NondetRec{name, "Int", t})
	v := e.Choose(n)
	e.addPC(e.pool.Eq(t, e.pool.BV(uint64(v), 64)))
	return v
}

func registerSchedStubs(sh *Shared) {
	reg := func(name string, f externalFn) { sh.ext[name] = f }
	// concurrent(p): enter concurrent mode with at most p preemptive context switches per path
	reg(mainPath+".concurrent", func(fr *frame, args []value) value {
		s := fr.i.ensureSched(int(asInt64(fr.i.concretizeInt(args[0]))))
		s.maxPreempt = int(asInt64(fr.i.concretizeInt(args[0])))
		return nil
	})
	// sync.Pool: a LIFO free list (always reuses the most recently put object: the adversarial
	// choice for stale-state bugs; the real pool may also drop objects)
	pools := func(fr *frame) map[*value][]value {
		st := fr.i.side()
		if st.pools == nil {
			st.pools = map[*value][]value{}
		}
		return st.pools
	}
	reg("(*sync.Pool).Get", func(fr *frame, args []value) value {
		fr.i.syncPoint(fr, "pool-get")
		ptr := args[0].(*value)
		fr.i.hbAcquire(fr, args[0])
		if l := pools(fr)[ptr]; len(l) > 0 {
			v := l[len(l)-1]
			pools(fr)[ptr] = l[:len(l)-1]
			return v
		}
		st := (*ptr).(structure)
		newFn := st[fieldIndex(mustDeref(fr.i.shared.poolType()), "New")]
		if c, ok := newFn.(*closure); ok && c != nil {
			return call(fr.i, fr, token.NoPos, c, nil)
		}
		if f, ok := newFn.(*ssa.Function); ok && f != nil {
			return call(fr.i, fr, token.NoPos, f, nil)
		}
		return iface{}
	})
	reg("(*sync.Pool).Put", func(fr *frame, args []value) value {
		fr.i.syncPoint(fr, "pool-put")
		ptr := args[0].(*value)
		pools(fr)[ptr] = append(pools(fr)[ptr], args[1])
		fr.i.hbRelease(fr, args[0])
		return nil
	})
	// function-style atomics on plain integer cells (sync/atomic.AddUint64(&x, d) etc.)
	for _, tn := range []string{"Int32", "Int64", "Uint32", "Uint64", "Uintptr"} {
		tn := tn
		reg("sync/atomic.Load"+tn, func(fr *frame, args []value) value {
			fr.i.syncPoint(fr, "atomic-load")
			fr.i.hbAcquire(fr, args[0])
			return *(args[0].(*value))
		})
		reg("sync/atomic.Store"+tn, func(fr *frame, args []value) value {
			fr.i.syncPoint(fr, "atomic-store")
			*(args[0].(*value)) = args[1]
			fr.i.hbRelease(fr, args[0])
			return nil
		})
		reg("sync/atomic.Add"+tn, func(fr *frame, args []value) value {
			fr.i.syncPoint(fr, "atomic-add")
			fr.i.hbAcquire(fr, args[0])
			p := args[0].(*value)
			var nv value
			if isSym(*p) || isSym(args[1]) {
				var t types.Type = types.Typ[map[string]types.BasicKind{"Int32": types.Int32, "Int64": types.Int64, "Uint32": types.Uint32, "Uint64": types.Uint64, "Uintptr": types.Uintptr}[tn]]
				nv = fr.i.symBinop(fr, token.ADD, t, *p, args[1])
			} else {
				var t types.Type = types.Typ[map[string]types.BasicKind{"Int32": types.Int32, "Int64": types.Int64, "Uint32": types.Uint32, "Uint64": types.Uint64, "Uintptr": types.Uintptr}[tn]]
				nv = binop(token.ADD, t, *p, args[1])
			}
			*p = nv
			fr.i.hbRelease(fr, args[0])
			return nv
		})
		reg("sync/atomic.Swap"+tn, func(fr *frame, args []value) value {
			fr.i.syncPoint(fr, "atomic-swap")
			fr.i.hbAcquire(fr, args[0])
			p := args[0].(*value)
			old := *p
			*p = args[1]
			fr.i.hbRelease(fr, args[0])
			return old
		})
		reg("sync/atomic.CompareAndSwap"+tn, func(fr *frame, args []value) value {
			fr.i.syncPoint(fr, "atomic-cas")
			fr.i.hbAcquire(fr, args[0])
			p := args[0].(*value)
			if isSym(*p) || isSym(args[1]) {
				fr.i.ex.unsupported("CompareAndSwap on a symbolic cell")
			}
			if *p == args[1] {
				*p = args[2]
				fr.i.hbRelease(fr, args[0])
				return true
			}
			return false
		})
	}
	reg(mainPath+".concRounds", func(fr *frame, args []value) value { return 1 })
	for _, n := range []string{"barrierReset", "barrierWait", "barrierOpen", "hLock", "hUnlock"} {
		reg(mainPath+"."+n, func(fr *frame, args []value) value { return nil })
	}
	wg := func(fr *frame, p value) *wgState {
		s := fr.i.ensureSched(2)
		ptr := p.(*value)
		w := s.wgs[ptr]
		if w == nil {
			w = &wgState{}
			s.wgs[ptr] = w
		}
		return w
	}
	reg("(*sync.WaitGroup).Add", func(fr *frame, args []value) value {
		w := wg(fr, args[0])
		w.n += int(asInt64(args[1]))
		if w.n < 0 {
			panic(targetPanic{iface{types.Typ[types.String], "sync: negative WaitGroup counter"}})
		}
		fr.i.hbRelease(fr, args[0])
		return nil
	})
	reg("(*sync.WaitGroup).Done", func(fr *frame, args []value) value {
		w := wg(fr, args[0])
		w.n--
		if w.n < 0 {
			panic(targetPanic{iface{types.Typ[types.String], "sync: negative WaitGroup counter"}})
		}
		fr.i.hbRelease(fr, args[0])
		return nil
	})
	reg("(*sync.WaitGroup).Wait", func(fr *frame, args []value) value {
		w := wg(fr, args[0])
		fr.i.syncPoint(fr, "wg-wait")
		fr.i.blockOn(fr, func() bool { return w.n == 0 }, "WaitGroup.Wait")
		fr.i.hbAcquire(fr, args[0])
		return nil
	})
}

func (sh *Shared) poolType() types.Type {
	return types.NewPointer(sh.prog.ImportedPackage("sync").Type("Pool").Type())
}
