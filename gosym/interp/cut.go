package interp

// Loop cut-points: one inductive step of a real loop from an arbitrary loop state.
//
// cutLoop(fn, pre, post) arms a cut for the next loop header reached in a function whose name
// ends in fn. When execution first arrives at that header (from outside the loop), every
// loop-carried variable of integer or boolean type (the header's phi nodes) is replaced by a
// fresh nondeterministic value named "loop.<var>", and pre() runs: the harness havocs whatever
// heap state the loop carries and assumes its invariant (reading the variables through
// loopVar*). The real loop body then executes once. On arrival at the header through the back
// edge the variables hold their new values, post() runs (the harness asserts the invariant and
// its variant), and the path ends there. Paths that leave the loop continue normally, so the
// harness can assert the post-condition on what the function returns.

import (
	"go/types"
	"sort"
	"strings"

	"golang.org/x/tools/go/ssa"
)

type cutState struct {
	fn      string
	pre     value
	post    value
	frame   *frame
	header  *ssa.BasicBlock
	vars    map[string]value
	entered bool
	busy    bool
}

func isLoopHeader(b *ssa.BasicBlock) bool {
	for _, p := range b.Preds {
		if b.Dominates(p) {
			return true
		}
	}
	return false
}

func phiVarName(phi *ssa.Phi) string {
	if phi.Comment != "" {
		return phi.Comment
	}
	return phi.Name()
}

// cutAtPhis is called by executePhis after the phi assignment of fr.block.
func (i *interpreter) cutAtPhis(fr *frame, phis []ssa.Instruction) {
	c := i.cut
	if c == nil || c.busy {
		return
	}
	if !c.entered {
		if !strings.HasSuffix(fr.fn.String(), c.fn) || !isLoopHeader(fr.block) || fr.block.Dominates(fr.prevBlock) {
			return
		}
		// first arrival, from outside the loop: havoc the loop-carried scalars
		c.entered, c.frame, c.header = true, fr, fr.block
		c.vars = map[string]value{}
		for _, in := range phis {
			phi := in.(*ssa.Phi)
			name := phiVarName(phi)
			if b, ok := phi.Type().Underlying().(*types.Basic); ok && (b.Info()&types.IsInteger != 0 || b.Kind() == types.Bool) {
				fr.env[phi] = i.nondet("loop."+name, b.Kind(), "loopvar")
			}
			c.vars[name] = fr.env[phi]
		}
		if c.pre != nil {
			c.busy = true
			call(i, fr, fr.pos(), c.pre, nil)
			c.busy = false
		}
		return
	}
	if fr == c.frame && fr.block == c.header {
		// back edge: the loop variables hold their values after one iteration
		for _, in := range phis {
			phi := in.(*ssa.Phi)
			c.vars[phiVarName(phi)] = fr.env[phi]
		}
		if c.post != nil {
			c.busy = true
			call(i, fr, fr.pos(), c.post, nil)
			c.busy = false
		}
		i.ex.reached["loop-back-edge"] = true
		i.ex.abort(EndCut, "one iteration of the cut loop completed")
	}
}

func registerCutStubs(sh *Shared) {
	reg := func(name string, f externalFn) { sh.ext[name] = f }
	reg(mainPath+".cutLoop", func(fr *frame, args []value) value {
		if fr.i.ex.concrete != nil && !concreteHasLoopVars(fr.i.ex.concrete) {
			return nil // concrete replays without loop variables run the loop from its real initial state
		}
		fr.i.cut = &cutState{fn: args[0].(string), pre: args[1], post: args[2]}
		return nil
	})
	get := func(fr *frame, name string, k types.BasicKind) value {
		c := fr.i.cut
		if c == nil || c.vars == nil {
			fr.i.ex.unsupported("loopVar(%q) outside a cut loop", name)
		}
		v, ok := c.vars[name]
		if !ok {
			fr.i.ex.unsupported("no loop-carried variable %q in the cut loop", name)
		}
		if s, ok := v.(sym); ok {
			return sym{s.t, k}
		}
		u, _, _ := bitsOf(v)
		return concreteOfKind(k, u)
	}
	reg(mainPath+".loopVarInt", func(fr *frame, args []value) value { return get(fr, args[0].(string), types.Int) })
	reg(mainPath+".loopVarU64", func(fr *frame, args []value) value { return get(fr, args[0].(string), types.Uint64) })
	reg(mainPath+".loopVarI64", func(fr *frame, args []value) value { return get(fr, args[0].(string), types.Int64) })
	// loopFrameValue(typ): the first value in the frame of the cut loop whose type prints as typ
	// (lets the harness reach heap objects the loop carries, e.g. the stream findBug reuses)
	reg(mainPath+".loopFrameValue", func(fr *frame, args []value) value {
		c := fr.i.cut
		if c == nil || c.frame == nil {
			fr.i.ex.unsupported("loopFrameValue outside a cut loop")
		}
		want := args[0].(string)
		var names []string
		byName := map[string]ssa.Value{}
		for k := range c.frame.env {
			if k.Type().String() == want {
				names = append(names, k.Name())
				byName[k.Name()] = k
			}
		}
		if len(names) == 0 {
			fr.i.ex.unsupported("no value of type %s in the cut frame", want)
		}
		sort.Strings(names)
		k := byName[names[0]]
		return iface{t: k.Type(), v: c.frame.env[k]}
	})
	reg(mainPath+".cutActive", func(fr *frame, args []value) value {
		return fr.i.ex.concrete == nil || concreteHasLoopVars(fr.i.ex.concrete)
	})
	reg(mainPath+".inCut", func(fr *frame, args []value) value { return fr.i.cut != nil && fr.i.cut.entered })
}

// concreteHasLoopVars: a replay vector that fixes the loop-carried variables of a cut
// ("loop.<var>") is replayed through the cut as well (the step from exactly that loop state).
func concreteHasLoopVars(m map[string]uint64) bool {
	for k := range m {
		if strings.HasPrefix(k, "loop.") {
			return true
		}
	}
	return false
}
