// Copyright 2013 The Go Authors. All rights reserved.
// Use of this source code is governed by a BSD-style
// license that can be found in the LICENSE file.

// Package ssa/interp defines an interpreter for the SSA
// representation of Go programs.
//
// This interpreter is provided as an adjunct for testing the SSA
// construction algorithm.  Its purpose is to provide a minimal
// metacircular implementation of the dynamic semantics of each SSA
// instruction.  It is not, and will never be, a production-quality Go
// interpreter.
//
// The following is a partial list of Go features that are currently
// unsupported or incomplete in the interpreter.
//
// * Unsafe operations, including all uses of unsafe.Pointer, are
// impossible to support given the "boxed" value representation we
// have chosen.
//
// * The reflect package is only partially implemented.
//
// * The "testing" package is no longer supported because it
// depends on low-level details that change too often.
//
// * "sync/atomic" operations are not atomic due to the "boxed" value
// representation: it is not possible to read, modify and write an
// interface value atomically. As a consequence, Mutexes are currently
// broken.
//
// * recover is only partially implemented.  Also, the interpreter
// makes no attempt to distinguish target panics from interpreter
// crashes.
//
// * the sizes of the int, uint and uintptr types in the target
// program are assumed to be the same as those of the interpreter
// itself.
//
// * all values occupy space, even those of types defined by the spec
// to have zero size, e.g. struct{}.  This can cause asymptotic
// performance degradation.
//
// * os.Exit is implemented using panic, causing deferred functions to
// run.
package interp // import "golang.org/x/tools/go/ssa/interp"

import (
	"fmt"
	"go/token"
	"go/types"
	"log"
	"os"
	"reflect"
	"slices"
	_ "unsafe"

	"golang.org/x/tools/go/ssa"
)

type continuation int

const (
	kNext continuation = iota
	kReturn
	kJump
)

// Mode is a bitmask of options affecting the interpreter.
type Mode uint

const (
	DisableRecover Mode = 1 << iota // Disable recover() in target programs; show interpreter crash instead.
	EnableTracing                   // Print a trace of all instructions as they are interpreted.
)

type methodSet map[string]*ssa.Function

// State shared between all interpreted goroutines.
type interpreter struct {
	osArgs             []value                // the value of os.Args
	prog               *ssa.Program           // the SSA program
	globals            map[*ssa.Global]*value // addresses of global variables (immutable)
	mode               Mode                   // interpreter options
	reflectPackage     *ssa.Package           // the fake reflect package
	errorMethods       methodSet              // the method set of reflect.error, which implements the error interface.
	rtypeMethods       methodSet              // the method set of rtype, which implements the reflect.Type interface.
	runtimeErrorString types.Type             // the runtime.errorString type
	sizes              types.Sizes            // the effective type-sizing function
	goroutines         int32                  // atomically updated
	ex                 *Exec                  // symbolic path executor
	shared             *Shared
	panicStack         []stackEntry // call stack captured where the current panic was raised
	cur                *frame       // innermost active frame (sequential mode)
	sched              *scheduler   // concurrent mode, nil otherwise
	cut                *cutState    // armed loop cut-point, nil otherwise
	entropy            []*Term      // values handed out by the entropy source so far
	tsTicking          bool         // formatted timestamps may advance (see tickingTimestamps)
	tsSecond           int
	depth              int
	bypass             map[string]int
	initMode           bool
	initPkg            *ssa.Package
	sideT              *sideTables
	onceRun            map[*value]bool
	symClock           bool
	clockTick          int64
	lastNow            *Term
}

type deferred struct {
	fn    value
	args  []value
	instr *ssa.Defer
	tail  *deferred
}

type frame struct {
	i                *interpreter
	caller           *frame
	fn               *ssa.Function
	block, prevBlock *ssa.BasicBlock
	env              map[ssa.Value]value // dynamic values of SSA variables
	locals           []value
	defers           *deferred
	result           value
	panicking        bool
	panic            interface{}
	phitemps         []value // temporaries for parallel phi assignment
	cur              ssa.Instruction
	lastPos          token.Pos
	inPanicDefers    bool
	recovered        *panicVal
	callpos          token.Pos
	g                *gthread
}

func (fr *frame) get(key ssa.Value) value {
	switch key := key.(type) {
	case nil:
		// Hack; simplifies handling of optional attributes
		// such as ssa.Slice.{Low,High}.
		return nil
	case *ssa.Function, *ssa.Builtin:
		return key
	case *ssa.Const:
		return constValue(key)
	case *ssa.Global:
		if r, ok := fr.i.globals[key]; ok {
			return r
		}
	}
	if r, ok := fr.env[key]; ok {
		if s, ok := r.(sym); ok {
			if v, ok := fr.i.ex.refined[s.t.id]; ok {
				c := concreteOfKind(s.k, v)
				fr.env[key] = c
				return c
			}
		}
		return r
	}
	panic(fmt.Sprintf("get: no value for %T: %v", key, key.Name()))
}

// runDefer runs a deferred call d.
// It always returns normally, but may set or clear fr.panic.
func (fr *frame) runDefer(d *deferred) {
	if fr.i.mode&EnableTracing != 0 {
		fmt.Fprintf(os.Stderr, "%s: invoking deferred function call\n",
			fr.i.prog.Fset.Position(d.instr.Pos()))
	}
	var ok bool
	defer func() {
		if !ok {
			// Deferred call created a new state of panic.
			r := recover()
			switch r.(type) {
			case pathAbort, internalError, crashPanic, killedPanic:
				panic(r)
			}
			fr.panicking = true
			fr.panic = fr.i.wrapPanic(fr, r)
			// the function is panicking from here on: the deferred calls still to run see the
			// panicking frames on the stack (below runtime.gopanic), as in the Go run-time
			fr.inPanicDefers = true
		}
	}()
	call(fr.i, fr, d.instr.Pos(), d.fn, d.args)
	ok = true
}

// runDefers executes fr's deferred function calls in LIFO order.
//
// On entry, fr.panicking indicates a state of panic; if
// true, fr.panic contains the panic value.
//
// On completion, if a deferred call started a panic, or if no
// deferred call recovered from a previous state of panic, then
// runDefers itself panics after the last deferred call has run.
//
// If there was no initial state of panic, or it was recovered from,
// runDefers returns normally.
func (fr *frame) runDefers() {
	for d := fr.defers; d != nil; d = d.tail {
		fr.runDefer(d)
	}
	fr.defers = nil
	if fr.panicking {
		panic(fr.panic) // new panic, or still panicking
	}
}

// lookupMethod returns the method set for type typ, which may be one
// of the interpreter's fake types.
func lookupMethod(i *interpreter, typ types.Type, meth *types.Func) *ssa.Function {
	switch typ {
	case rtypeType:
		return i.rtypeMethods[meth.Id()]
	case errorType:
		return i.errorMethods[meth.Id()]
	}
	return i.prog.LookupMethod(typ, meth.Pkg(), meth.Name())
}

// visitInstr interprets a single ssa.Instruction within the activation
// record frame.  It returns a continuation value indicating where to
// read the next instruction from.
func visitInstr(fr *frame, instr ssa.Instruction) continuation {
	switch instr := instr.(type) {
	case *ssa.DebugRef:
		// no-op

	case *ssa.UnOp:
		x := fr.get(instr.X)
		if sx, ok := x.(sym); ok {
			fr.env[instr] = fr.i.symUnop(instr.Op, instr.X.Type(), sx)
		} else {
			if instr.Op == token.MUL {
				fr.i.memAccess(fr, x, false)
			}
			fr.env[instr] = unop(instr, x)
		}

	case *ssa.BinOp:
		x, y := fr.get(instr.X), fr.get(instr.Y)
		if isSym(x) || isSym(y) || ((instr.Op == token.EQL || instr.Op == token.NEQ) && (containsSym(x) || containsSym(y))) {
			fr.env[instr] = fr.i.symBinop(fr, instr.Op, instr.X.Type(), x, y)
		} else {
			fr.env[instr] = binop(instr.Op, instr.X.Type(), x, y)
		}

	case *ssa.Call:
		fn, args := prepareCall(fr, &instr.Call)
		fr.env[instr] = call(fr.i, fr, instr.Pos(), fn, args)

	case *ssa.ChangeInterface:
		fr.env[instr] = fr.get(instr.X)

	case *ssa.ChangeType:
		fr.env[instr] = fr.get(instr.X) // (can't fail)

	case *ssa.Convert:
		x := fr.get(instr.X)
		if sx, ok := x.(sym); ok {
			fr.env[instr] = fr.i.symConv(instr.Type(), instr.X.Type(), sx)
		} else {
			fr.env[instr] = conv(instr.Type(), instr.X.Type(), x)
		}

	case *ssa.SliceToArrayPointer:
		fr.env[instr] = sliceToArrayPointer(instr.Type(), instr.X.Type(), fr.get(instr.X))

	case *ssa.MakeInterface:
		fr.env[instr] = iface{t: instr.X.Type(), v: fr.get(instr.X)}

	case *ssa.Extract:
		fr.env[instr] = fr.get(instr.Tuple).(tuple)[instr.Index]

	case *ssa.Slice:
		fr.env[instr] = slice(fr.get(instr.X), fr.i.concretizeInt(fr.get(instr.Low)), fr.i.concretizeInt(fr.get(instr.High)), fr.i.concretizeInt(fr.get(instr.Max)))

	case *ssa.Return:
		switch len(instr.Results) {
		case 0:
		case 1:
			fr.result = fr.get(instr.Results[0])
		default:
			var res []value
			for _, r := range instr.Results {
				res = append(res, fr.get(r))
			}
			fr.result = tuple(res)
		}
		fr.block = nil
		return kReturn

	case *ssa.RunDefers:
		fr.runDefers()

	case *ssa.Panic:
		fr.i.capturePanicStack(fr)
		panic(targetPanic{fr.get(instr.X)})

	case *ssa.Send:
		fr.get(instr.Chan).(chan value) <- fr.get(instr.X)

	case *ssa.Store:
		addr := fr.get(instr.Addr).(*value)
		fr.i.memAccess(fr, addr, true)
		store(mustDeref(instr.Addr.Type()), addr, fr.get(instr.Val))

	case *ssa.If:
		succ := 1
		var c bool
		switch cv := fr.get(instr.Cond).(type) {
		case bool:
			c = cv
		case sym:
			c = fr.i.ex.Branch(cv.t)
		}
		if c {
			succ = 0
		}
		fr.prevBlock, fr.block = fr.block, fr.block.Succs[succ]
		return kJump

	case *ssa.Jump:
		fr.prevBlock, fr.block = fr.block, fr.block.Succs[0]
		return kJump

	case *ssa.Defer:
		fn, args := prepareCall(fr, &instr.Call)
		defers := &fr.defers
		if into := fr.get(instr.DeferStack); into != nil {
			defers = into.(**deferred)
		}
		*defers = &deferred{
			fn:    fn,
			args:  args,
			instr: instr,
			tail:  *defers,
		}

	case *ssa.Go:
		fn, args := prepareCall(fr, &instr.Call)
		fr.i.spawn(fr, instr.Pos(), fn, args)

	case *ssa.MakeChan:
		fr.env[instr] = make(chan value, asInt64(fr.get(instr.Size)))

	case *ssa.Alloc:
		var addr *value
		if instr.Heap {
			// new
			addr = new(value)
			fr.env[instr] = addr
		} else {
			// local
			addr = fr.env[instr].(*value)
		}
		*addr = zero(mustDeref(instr.Type()))

	case *ssa.MakeSlice:
		slice := make([]value, asInt64(fr.i.concretizeInt(fr.get(instr.Cap))))
		tElt := instr.Type().Underlying().(*types.Slice).Elem()
		for i := range slice {
			slice[i] = zero(tElt)
		}
		fr.env[instr] = slice[:asInt64(fr.i.concretizeInt(fr.get(instr.Len)))]

	case *ssa.MakeMap:
		var reserve int64
		if instr.Reserve != nil {
			reserve = asInt64(fr.i.concretizeInt(fr.get(instr.Reserve)))
		}
		if !fitsInt(reserve, fr.i.sizes) {
			panic(fmt.Sprintf("ssa.MakeMap.Reserve value %d does not fit in int", reserve))
		}
		fr.env[instr] = makeMap(instr.Type().Underlying().(*types.Map).Key(), reserve)

	case *ssa.Range:
		fr.i.mapAccess(fr, fr.get(instr.X), false)
		fr.env[instr] = rangeIter(fr.get(instr.X), instr.X.Type())

	case *ssa.Next:
		fr.env[instr] = fr.get(instr.Iter).(iter).next()

	case *ssa.FieldAddr:
		fr.env[instr] = &(*fr.get(instr.X).(*value)).(structure)[instr.Field]

	case *ssa.Field:
		fr.env[instr] = fr.get(instr.X).(structure)[instr.Field]

	case *ssa.IndexAddr:
		x := fr.get(instr.X)
		idx := fr.i.concretizeInt(fr.get(instr.Index))
		switch x := x.(type) {
		case []value:
			fr.env[instr] = &x[asInt64(idx)]
		case *value: // *array
			fr.env[instr] = &(*x).(array)[asInt64(idx)]
		default:
			panic(fmt.Sprintf("unexpected x type in IndexAddr: %T", x))
		}

	case *ssa.Index:
		x := fr.get(instr.X)
		idx := fr.i.concretizeInt(fr.get(instr.Index))

		switch x := x.(type) {
		case array:
			fr.env[instr] = x[asInt64(idx)]
		case string:
			fr.env[instr] = x[asInt64(idx)]
		default:
			panic(fmt.Sprintf("unexpected x type in Index: %T", x))
		}

	case *ssa.Lookup:
		fr.i.mapAccess(fr, fr.get(instr.X), false)
		fr.env[instr] = fr.i.lookupSym(instr, fr.get(instr.X), fr.get(instr.Index))

	case *ssa.MapUpdate:
		m := fr.get(instr.Map)
		fr.i.mapAccess(fr, m, true)
		key := fr.i.concretizeKey(fr.get(instr.Key))
		v := fr.get(instr.Value)
		switch m := m.(type) {
		case map[value]value:
			m[key] = v
		case *hashmap:
			m.insert(key.(hashable), v)
		default:
			panic(fmt.Sprintf("illegal map type: %T", m))
		}

	case *ssa.TypeAssert:
		fr.env[instr] = typeAssert(fr.i, instr, fr.get(instr.X).(iface))

	case *ssa.MakeClosure:
		var bindings []value
		for _, binding := range instr.Bindings {
			bindings = append(bindings, fr.get(binding))
		}
		fr.env[instr] = &closure{instr.Fn.(*ssa.Function), bindings}

	case *ssa.Phi:
		log.Fatal("unreachable") // phis are processed at block entry

	case *ssa.Select:
		var cases []reflect.SelectCase
		if !instr.Blocking {
			cases = append(cases, reflect.SelectCase{
				Dir: reflect.SelectDefault,
			})
		}
		for _, state := range instr.States {
			var dir reflect.SelectDir
			if state.Dir == types.RecvOnly {
				dir = reflect.SelectRecv
			} else {
				dir = reflect.SelectSend
			}
			var send reflect.Value
			if state.Send != nil {
				send = reflect.ValueOf(fr.get(state.Send))
			}
			cases = append(cases, reflect.SelectCase{
				Dir:  dir,
				Chan: reflect.ValueOf(fr.get(state.Chan)),
				Send: send,
			})
		}
		chosen, recv, recvOk := reflect.Select(cases)
		if !instr.Blocking {
			chosen-- // default case should have index -1.
		}
		r := tuple{chosen, recvOk}
		for i, st := range instr.States {
			if st.Dir == types.RecvOnly {
				var v value
				if i == chosen && recvOk {
					// No need to copy since send makes an unaliased copy.
					v = recv.Interface().(value)
				} else {
					v = zero(st.Chan.Type().Underlying().(*types.Chan).Elem())
				}
				r = append(r, v)
			}
		}
		fr.env[instr] = r

	default:
		panic(fmt.Sprintf("unexpected instruction: %T", instr))
	}

	// if val, ok := instr.(ssa.Value); ok {
	// 	fmt.Println(toString(fr.env[val])) // debugging
	// }

	return kNext
}

// prepareCall determines the function value and argument values for a
// function call in a Call, Go or Defer instruction, performing
// interface method lookup if needed.
func prepareCall(fr *frame, call *ssa.CallCommon) (fn value, args []value) {
	v := fr.get(call.Value)
	if call.Method == nil {
		// Function call.
		fn = v
	} else {
		// Interface method invocation.
		recv := v.(iface)
		if recv.t == nil {
			panic("method invoked on nil interface")
		}
		if f := lookupMethod(fr.i, recv.t, call.Method); f == nil {
			// Unreachable in well-typed programs.
			panic(fmt.Sprintf("method set for dynamic type %v does not contain %s", recv.t, call.Method))
		} else {
			fn = f
		}
		args = append(args, recv.v)
	}
	for _, arg := range call.Args {
		args = append(args, fr.get(arg))
	}
	return
}

// executePhis executes the phi-nodes at the start of the current
// block and returns the non-phi instructions.
func executePhis(fr *frame) []ssa.Instruction {
	firstNonPhi := -1
	for i, instr := range fr.block.Instrs {
		if _, ok := instr.(*ssa.Phi); !ok {
			firstNonPhi = i
			break
		}
	}
	// Inv: 0 <= firstNonPhi; every block contains a non-phi.

	nonPhis := fr.block.Instrs[firstNonPhi:]
	if firstNonPhi > 0 {
		phis := fr.block.Instrs[:firstNonPhi]
		// Execute parallel assignment of phis.
		//
		// See "the swap problem" in Briggs et al's "Practical Improvements
		// to the Construction and Destruction of SSA Form" for discussion.
		predIndex := slices.Index(fr.block.Preds, fr.prevBlock)
		fr.phitemps = fr.phitemps[:0]
		for _, phi := range phis {
			phi := phi.(*ssa.Phi)
			if fr.i.mode&EnableTracing != 0 {
				fmt.Fprintln(os.Stderr, "\t", phi.Name(), "=", phi)
			}
			fr.phitemps = append(fr.phitemps, fr.get(phi.Edges[predIndex]))
		}
		for i, phi := range phis {
			fr.env[phi.(*ssa.Phi)] = fr.phitemps[i]
		}
		if fr.i.cut != nil {
			fr.i.cutAtPhis(fr, phis)
		}
	}
	return nonPhis
}
