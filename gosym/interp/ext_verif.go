package interp

// Harness API (nondet/assume/vassert/...) and environment stubs.

import (
	"fmt"
	"go/token"
	"go/types"
	"math"
	"path/filepath"
	"regexp"
	"sort"
	"strconv"
	"strings"
	"unicode"
	"unicode/utf8"

	"golang.org/x/tools/go/ssa"
)

const mainPath = "pgregory.net/rapid"

func (sh *Shared) posString(fr *frame) string {
	if fr.caller == nil {
		return ""
	}
	p := sh.prog.Fset.Position(fr.caller.pos())
	return fmt.Sprintf("%s:%d", shortFile(p.Filename), p.Line)
}

func (i *interpreter) nondet(name string, k types.BasicKind, kindName string) value {
	e := i.ex
	name = e.nondetName(name)
	if e.concrete != nil {
		return concreteOfKind(k, e.concrete[name]&maskW(maxInt(kindWidth(k), 1)))
	}
	var t *Term
	switch {
	case k == types.Bool:
		t = e.pool.Var(name, boolSort)
	case kindIsFloat(k):
		// a float is introduced through its bit pattern so that models are exact
		b := e.pool.Var(name, bvSort(kindWidth(k)))
		e.nondets = append(e.nondets, NondetRec{name, kindName, b})
		return sym{e.pool.FPFromBits(b), k}
	default:
		t = e.pool.Var(name, bvSort(kindWidth(k)))
	}
	e.nondets = append(e.nondets, NondetRec{name, kindName, t})
	return sym{t, k}
}

func maxInt(a, b int) int {
	if a > b {
		return a
	}
	return b
}

func (i *interpreter) boolTerm(v value) *Term {
	switch b := v.(type) {
	case bool:
		return i.ex.pool.Bool(b)
	case sym:
		return b.t
	}
	i.ex.unsupported("expected bool, got %T", v)
	return nil
}

func registerVerifExternals(sh *Shared) {
	reg := func(name string, f externalFn) { sh.ext[name] = f }
	nd := func(fn string, k types.BasicKind) {
		reg(mainPath+"."+fn, func(fr *frame, args []value) value {
			return fr.i.nondet(args[0].(string), k, strings.TrimPrefix(fn, "nondet"))
		})
	}
	nd("nondetU64", types.Uint64)
	nd("nondetI64", types.Int64)
	nd("nondetInt", types.Int)
	nd("nondetUint", types.Uint)
	nd("nondetU32", types.Uint32)
	nd("nondetI32", types.Int32)
	nd("nondetU16", types.Uint16)
	nd("nondetI16", types.Int16)
	nd("nondetU8", types.Uint8)
	nd("nondetI8", types.Int8)
	nd("nondetBool", types.Bool)
	nd("nondetF64", types.Float64)
	nd("nondetF32", types.Float32)

	reg(mainPath+".assume", func(fr *frame, args []value) value {
		fr.i.ex.Assume(fr.i.boolTerm(args[0]))
		return nil
	})
	reg(mainPath+".vassert", func(fr *frame, args []value) value {
		fr.i.ex.Assert(fr.i.boolTerm(args[0]), args[1].(string), sh.posString(fr))
		return nil
	})
	reg(mainPath+".reach", func(fr *frame, args []value) value {
		fr.i.ex.reached[args[0].(string)] = true
		return nil
	})
	reg(mainPath+".bOr", func(fr *frame, args []value) value {
		e := fr.i.ex
		return e.mkval(e.pool.Or(fr.i.boolTerm(args[0]), fr.i.boolTerm(args[1])), types.Bool)
	})
	reg(mainPath+".bAnd", func(fr *frame, args []value) value {
		e := fr.i.ex
		return e.mkval(e.pool.And(fr.i.boolTerm(args[0]), fr.i.boolTerm(args[1])), types.Bool)
	})
	reg(mainPath+".bImplies", func(fr *frame, args []value) value {
		e := fr.i.ex
		return e.mkval(e.pool.Or(e.pool.Not(fr.i.boolTerm(args[0])), fr.i.boolTerm(args[1])), types.Bool)
	})
	// symKey(x) is the text the fmt stub prints for x (decimal when x is concrete)
	reg(mainPath+".symKey", func(fr *frame, args []value) value {
		if s, ok := args[0].(sym); ok {
			return symKeyOf(s)
		}
		return fmt.Sprint(args[0])
	})
	reg(mainPath+".scratchDir", func(fr *frame, args []value) value { return "" })
	reg(mainPath+".scratchDone", func(fr *frame, args []value) value { return nil })
	// symClock(true): time.Now/Since/Until return symbolic, non-decreasing instants
	reg(mainPath+".symClock", func(fr *frame, args []value) value {
		fr.i.symClock = args[0].(bool)
		return nil
	})
	reg(mainPath+".thorough", func(fr *frame, args []value) value { return sh.Thorough })
	reg(mainPath+".symbolic", func(fr *frame, args []value) value { return true })
	reg(mainPath+".observe", func(fr *frame, args []value) value {
		e := fr.i.ex
		if e.concrete != nil {
			u, _, _ := bitsOf(args[1])
			e.observed = append(e.observed, fmt.Sprintf("%s=%d", args[0].(string), u))
		}
		return nil
	})
	// choose(name, n): concretized n-way choice in [0,n)
	reg(mainPath+".choose", func(fr *frame, args []value) value {
		return fr.i.chooseNamed(args[0].(string), int(asInt64(fr.i.concretizeInt(args[1]))))
	})
	// concretize(x): force a value to be concrete by case-splitting
	// pickU64(x): fix x to some value the path allows, without exploring the others (witness search)
	reg(mainPath+".pickU64", func(fr *frame, args []value) value {
		if s, ok := args[0].(sym); ok {
			return concreteOfKind(s.k, fr.i.ex.Pick(s.t))
		}
		return args[0]
	})
	reg(mainPath+".concretizeInt", func(fr *frame, args []value) value { return fr.i.concretizeInt(args[0]) })
	reg(mainPath+".concretizeU64", func(fr *frame, args []value) value { return fr.i.concretizeInt(args[0]) })
	// runIsolated(f) runs f and reports whether it ended through Goexit
	reg(mainPath+".runIsolated", func(fr *frame, args []value) (res value) {
		defer func() {
			if r := recover(); r != nil {
				if pv, ok := r.(*panicVal); ok {
					if _, ok := pv.v.(goexitPanic); ok {
						res = true
						return
					}
				}
				panic(r)
			}
		}()
		call(fr.i, fr, token.NoPos, args[0], nil)
		return false
	})
	// runUntilCrash(f) runs f; crashNow() inside it kills the "process" (no deferred call runs)
	reg(mainPath+".runUntilCrash", func(fr *frame, args []value) (res value) {
		depth := fr.i.depth
		defer func() {
			if r := recover(); r != nil {
				if _, ok := r.(crashPanic); ok {
					fr.i.depth = depth
					res = true
					return
				}
				panic(r)
			}
		}()
		call(fr.i, fr, token.NoPos, args[0], nil)
		return false
	})
	reg(mainPath+".crashNow", func(fr *frame, args []value) value { panic(crashPanic{}) })
	reg("runtime.Goexit", func(fr *frame, args []value) value {
		panic(goexitPanic{})
	})

	registerStdStubs(sh)
	registerSchedStubs(sh)
	registerCutStubs(sh)
}

// ---------------------------------------------------------------------
// Symbol-aware map access

func (i *interpreter) concretizeKey(k value) value {
	if s, ok := k.(sym); ok {
		if s.k == types.Bool {
			return i.ex.Branch(s.t)
		}
		return concreteOfKind(s.k, i.ex.Concretize(s.t))
	}
	if containsSym(k) {
		switch kv := k.(type) {
		case structure:
			out := make(structure, len(kv))
			for j := range kv {
				out[j] = i.concretizeKey(kv[j])
			}
			return out
		case array:
			out := make(array, len(kv))
			for j := range kv {
				out[j] = i.concretizeKey(kv[j])
			}
			return out
		case iface:
			return iface{kv.t, i.concretizeKey(kv.v)}
		}
	}
	return k
}

func (i *interpreter) lookupSym(instr *ssa.Lookup, x, idx value) value {
	if _, isStr := x.(string); isStr {
		return x.(string)[asInt64(i.concretizeInt(idx))]
	}
	return lookup(instr, x, i.concretizeKey(idx))
}

// ---------------------------------------------------------------------
// Standard-library stubs

type mutexState struct {
	writer         bool
	readers        int
	waitingWriters int
}

type sideTables struct {
	mutex     map[*value]*mutexState
	once      map[*value]bool
	syncMap   map[*value]*orderedMap
	frames    map[*value]*framesState
	logger    map[*value]*loggerState
	atomicVal map[*value]value
	prng      map[*value]*prngState
	pools     map[*value][]value
	seeds     map[*value]value
	pcs       []stackEntry
}

type orderedMap struct {
	keys []value
	vals []value
}

type framesState struct {
	entries []stackEntry
	next    int
}

type loggerState struct {
	w      value
	prefix string
}

func (i *interpreter) side() *sideTables {
	if i.sideT == nil {
		i.sideT = &sideTables{
			mutex:     map[*value]*mutexState{},
			once:      map[*value]bool{},
			syncMap:   map[*value]*orderedMap{},
			frames:    map[*value]*framesState{},
			logger:    map[*value]*loggerState{},
			atomicVal: map[*value]value{},
			prng:      map[*value]*prngState{},
		}
	}
	return i.sideT
}

func (i *interpreter) mutexOf(p value) *mutexState {
	ptr := p.(*value)
	if ptr == nil {
		panic(runtimeError("invalid memory address or nil pointer dereference"))
	}
	st := i.side().mutex[ptr]
	if st == nil {
		st = &mutexState{}
		i.side().mutex[ptr] = st
	}
	return st
}

func fieldIndex(t types.Type, name string) int {
	st := t.Underlying().(*types.Struct)
	for j := 0; j < st.NumFields(); j++ {
		if st.Field(j).Name() == name {
			return j
		}
	}
	panic("no field " + name + " in " + t.String())
}

func (sh *Shared) errorValue(msg string) value {
	if t := sh.main.Type("verifFmtError"); t != nil {
		return iface{types.NewPointer(t.Type()), valuePtr(structure{msg})}
	}
	return iface{sh.rtErrType, structure{msg}}
}

func valuePtr(v value) *value { return &v }

func registerStdStubs(sh *Shared) {
	reg := func(name string, f externalFn) { sh.ext[name] = f }

	// --- sync ---
	lock := func(fr *frame, args []value) value {
		fr.i.syncPoint(fr, "lock")
		m := fr.i.mutexOf(args[0])
		if m.writer || m.readers > 0 {
			// sync.RWMutex: a blocked Lock call excludes new readers from acquiring the lock
			m.waitingWriters++
			func() {
				defer func() { m.waitingWriters-- }()
				fr.i.blockOn(fr, func() bool { return !m.writer && m.readers == 0 }, "Lock")
			}()
		}
		m.writer = true
		fr.i.hbAcquire(fr, args[0])
		return nil
	}
	unlock := func(fr *frame, args []value) value {
		m := fr.i.mutexOf(args[0])
		if !m.writer {
			panic(targetPanic{iface{types.Typ[types.String], "sync: unlock of unlocked mutex"}})
		}
		m.writer = false
		fr.i.hbRelease(fr, args[0])
		return nil
	}
	rlock := func(fr *frame, args []value) value {
		fr.i.syncPoint(fr, "rlock")
		m := fr.i.mutexOf(args[0])
		if m.writer || m.waitingWriters > 0 {
			fr.i.blockOn(fr, func() bool { return !m.writer && m.waitingWriters == 0 }, "RLock")
		}
		m.readers++
		fr.i.hbAcquireShared(fr, args[0])
		return nil
	}
	runlock := func(fr *frame, args []value) value {
		m := fr.i.mutexOf(args[0])
		if m.readers <= 0 {
			panic(targetPanic{iface{types.Typ[types.String], "sync: RUnlock of unlocked RWMutex"}})
		}
		m.readers--
		fr.i.hbReleaseShared(fr, args[0])
		return nil
	}
	reg("(*sync.Mutex).Lock", lock)
	reg("(*sync.Mutex).Unlock", unlock)
	reg("(*sync.RWMutex).Lock", lock)
	reg("(*sync.RWMutex).Unlock", unlock)
	reg("(*sync.RWMutex).RLock", rlock)
	reg("(*sync.RWMutex).RUnlock", runlock)
	reg("(*sync.Once).Do", func(fr *frame, args []value) value {
		ptr := args[0].(*value)
		// Once.Do is a lock-protected check: model with a mutex around the flag
		fr.i.syncPoint(fr, "once")
		for fr.i.side().once[ptr] == false && fr.i.onceRunning(ptr) {
			fr.i.blockOn(fr, func() bool { return !fr.i.onceRunning(ptr) }, "Once.Do")
		}
		if !fr.i.side().once[ptr] {
			fr.i.setOnceRunning(ptr, true)
			func() {
				defer func() {
					fr.i.side().once[ptr] = true
					fr.i.setOnceRunning(ptr, false)
					fr.i.hbRelease(fr, args[0])
				}()
				call(fr.i, fr, token.NoPos, args[1], nil)
			}()
		} else {
			fr.i.hbAcquire(fr, args[0])
		}
		return nil
	})

	// --- sync/atomic typed values: struct{_ noCopy; v T} ---
	atomicField := func(fr *frame, p value) *value {
		ptr := p.(*value)
		if ptr == nil {
			panic(runtimeError("invalid memory address or nil pointer dereference"))
		}
		st := (*ptr).(structure)
		return &st[len(st)-1]
	}
	for _, tn := range []string{"Bool", "Int32", "Int64", "Uint32", "Uint64"} {
		tn := tn
		reg("(*sync/atomic."+tn+").Load", func(fr *frame, args []value) value {
			fr.i.syncPoint(fr, "atomic-load")
			f := atomicField(fr, args[0])
			fr.i.hbAcquire(fr, args[0])
			if tn == "Bool" {
				return (*f).(uint32) != 0
			}
			return *f
		})
		reg("(*sync/atomic."+tn+").Store", func(fr *frame, args []value) value {
			fr.i.syncPoint(fr, "atomic-store")
			f := atomicField(fr, args[0])
			if tn == "Bool" {
				if args[1].(bool) {
					*f = uint32(1)
				} else {
					*f = uint32(0)
				}
			} else {
				*f = args[1]
			}
			fr.i.hbRelease(fr, args[0])
			return nil
		})
	}
	reg("(*sync/atomic.Int32).Add", func(fr *frame, args []value) value {
		fr.i.syncPoint(fr, "atomic-add")
		f := atomicField(fr, args[0])
		fr.i.hbAcquire(fr, args[0])
		*f = (*f).(int32) + args[1].(int32)
		fr.i.hbRelease(fr, args[0])
		return *f
	})
	reg("(*sync/atomic.Int64).Add", func(fr *frame, args []value) value {
		fr.i.syncPoint(fr, "atomic-add")
		f := atomicField(fr, args[0])
		fr.i.hbAcquire(fr, args[0])
		*f = (*f).(int64) + args[1].(int64)
		fr.i.hbRelease(fr, args[0])
		return *f
	})

	// --- sync/atomic.Pointer[T]: struct{_ [0]*T; _ noCopy; v unsafe.Pointer}; the pointer is kept in a side table ---
	reg("(*sync/atomic.Pointer[T]).Load", func(fr *frame, args []value) value {
		fr.i.syncPoint(fr, "atomic-load")
		fr.i.hbAcquire(fr, args[0])
		if v, ok := fr.i.side().atomicVal[args[0].(*value)]; ok {
			return v
		}
		return (*value)(nil)
	})
	reg("(*sync/atomic.Pointer[T]).Store", func(fr *frame, args []value) value {
		fr.i.syncPoint(fr, "atomic-store")
		fr.i.side().atomicVal[args[0].(*value)] = args[1]
		fr.i.hbRelease(fr, args[0])
		return nil
	})

	// --- sync/atomic.Value ---
	reg("(*sync/atomic.Value).Load", func(fr *frame, args []value) value {
		fr.i.syncPoint(fr, "atomic-load")
		fr.i.hbAcquire(fr, args[0])
		if v, ok := fr.i.side().atomicVal[args[0].(*value)]; ok {
			return v
		}
		return iface{}
	})
	reg("(*sync/atomic.Value).Store", func(fr *frame, args []value) value {
		fr.i.syncPoint(fr, "atomic-store")
		fr.i.side().atomicVal[args[0].(*value)] = args[1]
		fr.i.hbRelease(fr, args[0])
		return nil
	})
	reg("(*sync/atomic.Value).CompareAndSwap", func(fr *frame, args []value) value {
		fr.i.syncPoint(fr, "atomic-cas")
		cur, ok := fr.i.side().atomicVal[args[0].(*value)]
		if !ok {
			cur = iface{}
		}
		if cur.(iface).eq(nil, args[1].(iface)) {
			fr.i.side().atomicVal[args[0].(*value)] = args[2]
			fr.i.hbRelease(fr, args[0])
			return true
		}
		return false
	})

	// --- sync.Map ---
	smap := func(fr *frame, p value) *orderedMap {
		ptr := p.(*value)
		m := fr.i.side().syncMap[ptr]
		if m == nil {
			m = &orderedMap{}
			fr.i.side().syncMap[ptr] = m
		}
		return m
	}
	anyT := types.NewInterfaceType(nil, nil)
	find := func(m *orderedMap, k value) int {
		for j, kk := range m.keys {
			if kk.(iface).eq(anyT, k.(iface)) {
				return j
			}
		}
		return -1
	}
	reg("(*sync.Map).Load", func(fr *frame, args []value) value {
		fr.i.syncPoint(fr, "syncmap")
		m := smap(fr, args[0])
		fr.i.hbAcquire(fr, args[0])
		if j := find(m, args[1]); j >= 0 {
			return tuple{m.vals[j], true}
		}
		return tuple{iface{}, false}
	})
	reg("(*sync.Map).Store", func(fr *frame, args []value) value {
		fr.i.syncPoint(fr, "syncmap")
		m := smap(fr, args[0])
		if j := find(m, args[1]); j >= 0 {
			m.vals[j] = args[2]
		} else {
			m.keys = append(m.keys, args[1])
			m.vals = append(m.vals, args[2])
		}
		fr.i.hbRelease(fr, args[0])
		return nil
	})
	reg("(*sync.Map).LoadOrStore", func(fr *frame, args []value) value {
		fr.i.syncPoint(fr, "syncmap")
		m := smap(fr, args[0])
		fr.i.hbAcquire(fr, args[0])
		if j := find(m, args[1]); j >= 0 {
			return tuple{m.vals[j], true}
		}
		m.keys = append(m.keys, args[1])
		m.vals = append(m.vals, args[2])
		fr.i.hbRelease(fr, args[0])
		return tuple{args[2], false}
	})

	// --- strings.Builder (uses unsafe) ---
	bufOf := func(p value) *value {
		ptr := p.(*value)
		if ptr == nil {
			panic(runtimeError("invalid memory address or nil pointer dereference"))
		}
		st := (*ptr).(structure)
		return &st[1]
	}
	appendStr := func(b *value, s string) {
		bs := (*b).([]value)
		for k := 0; k < len(s); k++ {
			bs = append(bs, s[k])
		}
		*b = bs
	}
	reg("(*strings.Builder).WriteString", func(fr *frame, args []value) value {
		s := args[1].(string)
		appendStr(bufOf(args[0]), s)
		return tuple{len(s), iface{}}
	})
	reg("(*strings.Builder).WriteByte", func(fr *frame, args []value) value {
		b := bufOf(args[0])
		*b = append((*b).([]value), args[1])
		return iface{}
	})
	reg("(*strings.Builder).WriteRune", func(fr *frame, args []value) value {
		r, ok := args[1].(int32)
		if !ok {
			fr.i.ex.unsupported("strings.Builder.WriteRune of symbolic rune")
		}
		s := string(r)
		appendStr(bufOf(args[0]), s)
		return tuple{len(s), iface{}}
	})
	reg("(*strings.Builder).Write", func(fr *frame, args []value) value {
		b := bufOf(args[0])
		p := args[1].([]value)
		*b = append((*b).([]value), p...)
		return tuple{len(p), iface{}}
	})
	reg("(*strings.Builder).String", func(fr *frame, args []value) value {
		return bytesToString(fr.i, (*bufOf(args[0])).([]value))
	})
	reg("(*strings.Builder).Len", func(fr *frame, args []value) value { return len((*bufOf(args[0])).([]value)) })
	reg("(*strings.Builder).Grow", func(fr *frame, args []value) value { return nil })
	reg("(*strings.Builder).Reset", func(fr *frame, args []value) value { *bufOf(args[0]) = []value(nil); return nil })

	// --- strings: native on concrete arguments ---
	s2 := func(name string, f func(a, b string) value) {
		reg("strings."+name, func(fr *frame, args []value) value { return f(args[0].(string), args[1].(string)) })
	}
	s2("HasPrefix", func(a, b string) value { return strings.HasPrefix(a, b) })
	s2("HasSuffix", func(a, b string) value { return strings.HasSuffix(a, b) })
	s2("Contains", func(a, b string) value { return strings.Contains(a, b) })
	s2("Index", func(a, b string) value { return strings.Index(a, b) })
	s2("LastIndex", func(a, b string) value { return strings.LastIndex(a, b) })
	s2("TrimPrefix", func(a, b string) value { return strings.TrimPrefix(a, b) })
	s2("TrimSuffix", func(a, b string) value { return strings.TrimSuffix(a, b) })
	s2("Trim", func(a, b string) value { return strings.Trim(a, b) })
	s2("Count", func(a, b string) value { return strings.Count(a, b) })
	s2("EqualFold", func(a, b string) value { return strings.EqualFold(a, b) })
	s2("Split", func(a, b string) value { return stringsToValue(strings.Split(a, b)) })
	reg("strings.TrimSpace", func(fr *frame, args []value) value { return strings.TrimSpace(args[0].(string)) })
	reg("strings.ToUpper", func(fr *frame, args []value) value { return strings.ToUpper(args[0].(string)) })
	reg("strings.ToLower", func(fr *frame, args []value) value { return strings.ToLower(args[0].(string)) })
	reg("strings.Repeat", func(fr *frame, args []value) value {
		return strings.Repeat(args[0].(string), int(asInt64(args[1])))
	})
	reg("strings.Join", func(fr *frame, args []value) value {
		var ss []string
		for _, v := range args[0].([]value) {
			ss = append(ss, v.(string))
		}
		return strings.Join(ss, args[1].(string))
	})
	reg("strings.Replace", func(fr *frame, args []value) value {
		return strings.Replace(args[0].(string), args[1].(string), args[2].(string), int(asInt64(args[3])))
	})
	reg("strings.ReplaceAll", func(fr *frame, args []value) value {
		return strings.ReplaceAll(args[0].(string), args[1].(string), args[2].(string))
	})
	reg("strings.IndexByte", func(fr *frame, args []value) value {
		return strings.IndexByte(args[0].(string), args[1].(byte))
	})
	reg("strings.Fields", func(fr *frame, args []value) value { return stringsToValue(strings.Fields(args[0].(string))) })
	reg("regexp.QuoteMeta", func(fr *frame, args []value) value { return regexp.QuoteMeta(args[0].(string)) })
	reg("path/filepath.Join", func(fr *frame, args []value) value {
		var ss []string
		for _, v := range args[0].([]value) {
			ss = append(ss, v.(string))
		}
		return filepath.Join(ss...)
	})
	reg("path/filepath.Dir", func(fr *frame, args []value) value { return filepath.Dir(args[0].(string)) })
	reg("path/filepath.Base", func(fr *frame, args []value) value { return filepath.Base(args[0].(string)) })
	reg("path/filepath.Match", func(fr *frame, args []value) value {
		ok, err := filepath.Match(args[0].(string), args[1].(string))
		if err != nil {
			return tuple{ok, sh.errorValue(err.Error())}
		}
		return tuple{ok, iface{}}
	})
	reg("unicode.IsLetter", func(fr *frame, args []value) value { return unicode.IsLetter(args[0].(int32)) })
	reg("unicode.IsDigit", func(fr *frame, args []value) value { return unicode.IsDigit(args[0].(int32)) })
	reg("unicode.IsSpace", func(fr *frame, args []value) value { return unicode.IsSpace(args[0].(int32)) })
	reg("unicode.IsUpper", func(fr *frame, args []value) value { return unicode.IsUpper(args[0].(int32)) })
	reg("unicode/utf8.RuneLen", func(fr *frame, args []value) value { return utf8.RuneLen(args[0].(int32)) })
	reg("unicode/utf8.ValidRune", func(fr *frame, args []value) value { return utf8.ValidRune(args[0].(int32)) })
	reg("unicode/utf8.ValidString", func(fr *frame, args []value) value { return utf8.ValidString(args[0].(string)) })
	reg("unicode/utf8.RuneCountInString", func(fr *frame, args []value) value {
		return utf8.RuneCountInString(args[0].(string))
	})
	reg("strconv.ParseUint", func(fr *frame, args []value) value {
		if t := fr.i.parseSymKey(args[0].(string)); t != nil {
			return tuple{sym{t, types.Uint64}, iface{}}
		}
		u, err := strconv.ParseUint(args[0].(string), int(asInt64(args[1])), int(asInt64(args[2])))
		if err != nil {
			return tuple{u, sh.errorValue(err.Error())}
		}
		return tuple{u, iface{}}
	})
	reg("strconv.Quote", func(fr *frame, args []value) value { return strconv.Quote(args[0].(string)) })
	reg("sort.Strings", ext۰sort۰Strings)

	// --- math ---
	m1 := func(name string, f func(float64) float64) {
		reg("math."+name, func(fr *frame, args []value) value {
			x, ok := args[0].(float64)
			if !ok {
				fr.i.ex.unsupported("math.%s of symbolic float", name)
			}
			return f(x)
		})
	}
	reg("math.Log1p", func(fr *frame, args []value) value {
		if s, ok := args[0].(sym); ok {
			return sym{fr.i.ex.pool.mk("native:log1p", s.t.sort, s.t), types.Float64}
		}
		return math.Log1p(args[0].(float64))
	})
	m1("Ceil", math.Ceil)
	m1("Floor", math.Floor)
	m1("Log", math.Log)
	m1("Log2", math.Log2)
	m1("Exp", math.Exp)
	m1("Sqrt", math.Sqrt)
	m1("Abs", math.Abs)
	m1("Trunc", math.Trunc)
	m2 := func(name string, f func(a, b float64) float64) {
		reg("math."+name, func(fr *frame, args []value) value {
			x, ok1 := args[0].(float64)
			y, ok2 := args[1].(float64)
			if !ok1 || !ok2 {
				fr.i.ex.unsupported("math.%s of symbolic float", name)
			}
			return f(x, y)
		})
	}
	m2("Max", math.Max)
	m2("Min", math.Min)
	m2("Pow", math.Pow)
	reg("math.Float64bits", func(fr *frame, args []value) value {
		if s, ok := args[0].(sym); ok {
			return fr.i.fpBits(s, 64)
		}
		return math.Float64bits(args[0].(float64))
	})
	reg("math.Float32bits", func(fr *frame, args []value) value {
		if s, ok := args[0].(sym); ok {
			return fr.i.fpBits(s, 32)
		}
		return math.Float32bits(args[0].(float32))
	})
	reg("math.Float64frombits", func(fr *frame, args []value) value {
		if s, ok := args[0].(sym); ok {
			return sym{fr.i.ex.pool.FPFromBits(s.t), types.Float64}
		}
		return math.Float64frombits(args[0].(uint64))
	})
	reg("math.Float32frombits", func(fr *frame, args []value) value {
		if s, ok := args[0].(sym); ok {
			return sym{fr.i.ex.pool.FPFromBits(s.t), types.Float32}
		}
		return math.Float32frombits(args[0].(uint32))
	})
	reg("math.IsNaN", func(fr *frame, args []value) value {
		if s, ok := args[0].(sym); ok {
			return fr.i.ex.mkval(fr.i.ex.pool.FPIsNaN(s.t), types.Bool)
		}
		return math.IsNaN(args[0].(float64))
	})
	reg("math.Inf", func(fr *frame, args []value) value { return math.Inf(int(asInt64(args[0]))) })
	reg("math.IsInf", func(fr *frame, args []value) value {
		x, ok := args[0].(float64)
		if !ok {
			fr.i.ex.unsupported("math.IsInf of symbolic float")
		}
		return math.IsInf(x, int(asInt64(args[1])))
	})

	// --- math/bits on symbolic words ---
	reg("math/bits.Len64", func(fr *frame, args []value) value {
		if s, ok := args[0].(sym); ok {
			return fr.i.symLen(s.t)
		}
		return bitsLen64(args[0].(uint64))
	})
	reg("math/bits.RotateLeft64", func(fr *frame, args []value) value {
		x, k := args[0], args[1]
		kk, ok := k.(int)
		if !ok {
			fr.i.ex.unsupported("RotateLeft64 with symbolic count")
		}
		if s, ok := x.(sym); ok {
			n := uint(kk) & 63
			if n == 0 {
				return s
			}
			return sym{fr.i.ex.pool.mk(fmt.Sprintf("(_ rotate_left %d)", n), s.t.sort, s.t), types.Uint64}
		}
		xv := x.(uint64)
		n := uint(kk) & 63
		return xv<<n | xv>>(64-n)
	})

	// --- fmt ---
	reg("fmt.Sprintf", func(fr *frame, args []value) value {
		return fr.i.sprintf(fr, args[0].(string), args[1].([]value))
	})
	reg("fmt.Errorf", func(fr *frame, args []value) value {
		return sh.errorValue(fr.i.sprintf(fr, args[0].(string), args[1].([]value)))
	})
	reg("fmt.Sprint", func(fr *frame, args []value) value {
		return fr.i.sprint(fr, args[0].([]value), false)
	})
	reg("fmt.Sprintln", func(fr *frame, args []value) value {
		return fr.i.sprint(fr, args[0].([]value), true)
	})
	reg("fmt.Fprintf", func(fr *frame, args []value) value {
		s := fr.i.sprintf(fr, args[1].(string), args[2].([]value))
		return fr.i.writeTo(fr, args[0], s)
	})
	reg("errors.New", func(fr *frame, args []value) value { return sh.errorValue(args[0].(string)) })

	// --- testing / flag / misc ---
	reg("testing.Short", func(fr *frame, args []value) value { return false })
	reg("os.Getpid", func(fr *frame, args []value) value { return 4242 })
	flagVar := func(fr *frame, args []value) value {
		p := args[0].(*value)
		*p = args[2]
		return nil
	}
	for _, n := range []string{"IntVar", "StringVar", "BoolVar", "Uint64Var", "DurationVar", "Int64Var", "UintVar", "Float64Var"} {
		reg("flag."+n, flagVar)
	}
	reg("html/template.New", func(fr *frame, args []value) value { return (*value)(nil) })
	reg("(*html/template.Template).Parse", func(fr *frame, args []value) value { return tuple{(*value)(nil), iface{}} })
	reg("html/template.Must", func(fr *frame, args []value) value { return (*value)(nil) })

	// --- hash/maphash: the environment's entropy ---
	reg("(*hash/maphash.Hash).Sum64", func(fr *frame, args []value) value {
		// contract of the entropy source: every value is fresh (pairwise distinct within a process)
		v := fr.i.nondet("env.maphash", types.Uint64, "U64")
		if sv, ok := v.(sym); ok {
			e := fr.i.ex
			for _, old := range fr.i.entropy {
				e.addPC(e.pool.Not(e.pool.Eq(sv.t, old)))
			}
			fr.i.entropy = append(fr.i.entropy, sv.t)
		}
		return v
	})

	// During per-path package initialisation the default rune tables are truncated to
	// the first two runes of each table (expanding all of Unicode per path is too slow).
	// Generators built on the default tables (Rune(), String()) are outside every claim.
	reg(mainPath+".expandRangeTable", func(fr *frame, args []value) value {
		if !fr.i.initMode {
			return callSSAReal(fr, mainPath+".expandRangeTable", args)
		}
		tab := args[0].(*value)
		if tab == nil {
			return []value{int32('a'), int32('b')}
		}
		st := (*tab).(structure)
		if r16 := st[0].([]value); len(r16) > 0 {
			r := r16[0].(structure)
			lo := int32(r[0].(uint16))
			return []value{lo, lo + int32(r[2].(uint16))}
		}
		if r32 := st[1].([]value); len(r32) > 0 {
			r := r32[0].(structure)
			lo := int32(r[0].(uint32))
			return []value{lo, lo + int32(r[2].(uint32))}
		}
		return []value{int32('a')}
	})

	// dataStr(buf) is the key of the shrinker's cache of rejected candidates. With symbolic
	// words the key is structural: syntactically identical word tuples get the same key,
	// anything else a different one. A spurious miss only makes accept() re-run a candidate
	// it would have skipped, with the same result for a deterministic property.
	reg(mainPath+".dataStr", func(fr *frame, args []value) value {
		var sb strings.Builder
		for _, w := range args[0].([]value) {
			if s, ok := w.(sym); ok {
				fmt.Fprintf(&sb, "<t%d>", s.t.id)
			} else {
				fmt.Fprintf(&sb, "<%x>", w.(uint64))
			}
		}
		return sb.String()
	})
	// jsf64: with a concrete state the real code runs; with a symbolic seed the PRNG output is
	// an arbitrary word sequence that is a function of the seed term (same seed term, same words).
	reg("(*"+mainPath+".jsf64ctx).init", func(fr *frame, args []value) value {
		if fr.i.side().seeds == nil {
			fr.i.side().seeds = map[*value]value{}
		}
		fr.i.side().seeds[args[0].(*value)] = args[1]
		if _, ok := args[1].(sym); !ok {
			delete(fr.i.side().prng, args[0].(*value))
			return callMethodReal(fr, "jsf64ctx", "init", args)
		}
		fr.i.side().prng[args[0].(*value)] = &prngState{seed: args[1].(sym).t}
		return nil
	})
	// streamSeed(r): the seed the PRNG of stream r was last initialised with
	reg(mainPath+".streamSeed", func(fr *frame, args []value) value {
		ptr := args[0].(*value)
		st := (*ptr).(structure)
		key := &st[fieldIndex(fr.i.shared.main.Type("randomBitStream").Type(), "ctx")]
		if v, ok := fr.i.side().seeds[key]; ok {
			return v
		}
		return uint64(0)
	})
	reg("(*"+mainPath+".jsf64ctx).rand", func(fr *frame, args []value) value {
		st := fr.i.side().prng[args[0].(*value)]
		if st == nil {
			return callMethodReal(fr, "jsf64ctx", "rand", args)
		}
		e := fr.i.ex
		name := fmt.Sprintf("prng[%s].%d", seedKey(e, st.seed), st.n)
		st.n++
		if t, ok := e.pool.tab["var|"+name]; ok {
			return sym{t, types.Uint64}
		}
		t := e.pool.Var(name, bvSort(64))
		e.nondets = append(e.nondets, NondetRec{name, "U64", t})
		return sym{t, types.Uint64}
	})
	reg("path/filepath.Glob", func(fr *frame, args []value) value {
		if f := sh.main.Func("vfsGlob"); f != nil {
			return callSSA(fr.i, fr.caller, fr.callpos, f, args, nil)
		}
		return tuple{[]value(nil), iface{}}
	})

	registerRuntimeStubs(sh)
	registerTimeStubs(sh)
	registerLogStubs(sh)
}

func stringsToValue(ss []string) value {
	out := make([]value, len(ss))
	for j, s := range ss {
		out[j] = s
	}
	return out
}

func bytesToString(i *interpreter, bs []value) string {
	b := make([]byte, len(bs))
	for j, v := range bs {
		c, ok := v.(byte)
		if !ok {
			i.ex.unsupported("string with symbolic bytes")
		}
		b[j] = c
	}
	return string(b)
}

func bitsLen64(x uint64) int {
	n := 0
	for ; x != 0; x >>= 1 {
		n++
	}
	return n
}

// symLen encodes bits.Len64 of a symbolic word as an ite chain (a merged summary).
func (i *interpreter) symLen(t *Term) value {
	p := i.ex.pool
	w := t.sort.w
	var ths, vals []uint64
	for k := 1; k <= w; k++ {
		ths = append(ths, uint64(1)<<uint(k-1))
		vals = append(vals, uint64(k))
	}
	r := stepTree(p, t, ths, vals, 0, 64)
	return sym{r, types.Int}
}

// fpBits returns the IEEE bit pattern of a symbolic float.
func (i *interpreter) fpBits(s sym, w int) value {
	e := i.ex
	k := types.Uint64
	if w == 32 {
		k = types.Uint32
	}
	if strings.HasPrefix(s.t.op, "(_ to_fp ") && len(s.t.args) == 1 && s.t.args[0].sort.k == sBV {
		return sym{s.t.args[0], types.BasicKind(k)}
	}
	// fresh pattern b with to_fp(b) == f (NaN payload unconstrained, as in Go)
	e.fpBitsN++
	b := e.pool.Var(fmt.Sprintf("fpbits!%d", e.fpBitsN), bvSort(w))
	f := e.pool.FPFromBits(b)
	e.addPC(e.pool.mk("=", boolSort, f, s.t))
	return sym{b, types.BasicKind(k)}
}

// ---------------------------------------------------------------------
// fmt shim

type nativeErr struct{ s string }

func (e nativeErr) Error() string { return e.s }

type nativeStringer struct{ s string }

func (e nativeStringer) String() string { return e.s }

type typeName string

func (i *interpreter) typeString(t types.Type) string {
	return types.TypeString(t, func(p *types.Package) string { return p.Name() })
}

// toNative converts an interpreter value of static/dynamic type t to a Go value usable with package fmt.
func (i *interpreter) toNative(fr *frame, t types.Type, v value, depth int) interface{} {
	if t == nil {
		return nil
	}
	if s, ok := v.(sym); ok {
		return nativeSym(symKeyOf(s))
	}
	// methods first
	if depth < 3 {
		if m := i.lookupMethodByName(t, "Error"); m != nil && methodSigIs(m, 0, "string") {
			if p, ok := v.(*value); !ok || p != nil {
				s := call(i, fr, token.NoPos, m, []value{v})
				if str, ok := s.(string); ok {
					return nativeErr{str}
				}
			}
		}
		if m := i.lookupMethodByName(t, "String"); m != nil && methodSigIs(m, 0, "string") {
			if p, ok := v.(*value); !ok || p != nil {
				s := call(i, fr, token.NoPos, m, []value{v})
				if str, ok := s.(string); ok {
					return nativeStringer{str}
				}
			}
		}
	}
	switch u := t.Underlying().(type) {
	case *types.Basic:
		return v
	case *types.Interface:
		itf := v.(iface)
		return i.toNative(fr, itf.t, itf.v, depth)
	case *types.Pointer:
		p := v.(*value)
		if p == nil {
			return nil
		}
		if _, ok := u.Elem().Underlying().(*types.Struct); ok {
			return nativeStringer{"&" + fmt.Sprint(i.toNative(fr, u.Elem(), load(u.Elem(), p), depth+1))}
		}
		return nativeStringer{fmt.Sprintf("%p", p)}
	case *types.Slice:
		sl := v.([]value)
		out := make([]interface{}, len(sl))
		for j := range sl {
			out[j] = i.toNative(fr, u.Elem(), sl[j], depth+1)
		}
		if b, ok := u.Elem().Underlying().(*types.Basic); ok && b.Kind() == types.Uint8 {
			bs := make([]byte, 0, len(sl))
			okAll := true
			for j := range sl {
				c, ok := sl[j].(byte)
				if !ok {
					okAll = false
					break
				}
				bs = append(bs, c)
			}
			if okAll {
				return bs
			}
		}
		return out
	case *types.Array:
		sl := v.(array)
		out := make([]interface{}, len(sl))
		for j := range sl {
			out[j] = i.toNative(fr, u.Elem(), sl[j], depth+1)
		}
		return out
	case *types.Struct:
		st := v.(structure)
		var sb strings.Builder
		sb.WriteString("{")
		for j := range st {
			if j > 0 {
				sb.WriteString(" ")
			}
			fmt.Fprint(&sb, i.toNative(fr, u.Field(j).Type(), st[j], depth+1))
		}
		sb.WriteString("}")
		return nativeStringer{sb.String()}
	case *types.Map:
		return nativeStringer{"map[...]"}
	case *types.Signature:
		return nativeStringer{"func"}
	}
	return nativeStringer{toString(v)}
}

func kindName(k types.BasicKind) string { return types.Typ[k].Name() }

func methodSigIs(m *ssa.Function, nparams int, result string) bool {
	sig := m.Signature
	if sig.Params().Len() != nparams || sig.Results().Len() != 1 {
		return false
	}
	return sig.Results().At(0).Type().String() == result
}

func (i *interpreter) nativeArgs(fr *frame, args []value, format string) []interface{} {
	out := make([]interface{}, len(args))
	// find %T verbs: they need the type, not the value
	verbs := formatVerbs(format)
	for j, a := range args {
		itf := a.(iface)
		if j < len(verbs) && verbs[j] == 'T' {
			if itf.t == nil {
				out[j] = nil
			} else {
				out[j] = typeName(i.typeString(itf.t))
			}
			continue
		}
		out[j] = i.toNative(fr, itf.t, itf.v, 0)
	}
	return out
}

func formatVerbs(format string) []byte {
	var verbs []byte
	for k := 0; k < len(format); k++ {
		if format[k] != '%' {
			continue
		}
		k++
		for k < len(format) && strings.IndexByte("+-# 0123456789.[]*", format[k]) >= 0 {
			k++
		}
		if k < len(format) && format[k] != '%' {
			verbs = append(verbs, format[k])
		}
	}
	return verbs
}

func (i *interpreter) sprintf(fr *frame, format string, args []value) string {
	nat := i.nativeArgs(fr, args, format)
	// %T of our typeName placeholder: rewrite to %s
	verbs := formatVerbs(format)
	if len(verbs) > 0 {
		var sb strings.Builder
		vi := 0
		for k := 0; k < len(format); k++ {
			if format[k] != '%' {
				sb.WriteByte(format[k])
				continue
			}
			start := k
			k++
			for k < len(format) && strings.IndexByte("+-# 0123456789.[]*", format[k]) >= 0 {
				k++
			}
			if k >= len(format) {
				sb.WriteString(format[start:])
				break
			}
			if format[k] == '%' {
				sb.WriteString("%%")
				continue
			}
			if format[k] == 'T' && vi < len(nat) {
				if _, ok := nat[vi].(typeName); ok {
					sb.WriteString("%s")
					vi++
					continue
				}
			}
			if format[k] == 'w' {
				sb.WriteString(format[start:k] + "v")
				vi++
				continue
			}
			sb.WriteString(format[start : k+1])
			vi++
		}
		format = sb.String()
	}
	return fmt.Sprintf(format, nat...)
}

func (i *interpreter) sprint(fr *frame, args []value, ln bool) string {
	nat := i.nativeArgs(fr, args, "")
	if ln {
		return fmt.Sprintln(nat...)
	}
	return fmt.Sprint(nat...)
}

// writeTo calls w.Write([]byte(s)) on an interpreted io.Writer.
func (i *interpreter) writeTo(fr *frame, w value, s string) value {
	itf := w.(iface)
	if itf.t == nil {
		panic(runtimeError("invalid memory address or nil pointer dereference"))
	}
	m := i.lookupMethodByName(itf.t, "Write")
	if m == nil {
		i.ex.unsupported("writer %s has no Write", itf.t)
	}
	bs := make([]value, len(s))
	for k := 0; k < len(s); k++ {
		bs[k] = s[k]
	}
	return call(i, fr, token.NoPos, m, []value{itf.v, bs})
}

var _ = sort.Strings

// callSSAReal runs the real body of a function that also has an external registered.
func callSSAReal(fr *frame, name string, args []value) value {
	i := fr.i
	var fn *ssa.Function
	if k := strings.LastIndex(name, "."); k >= 0 {
		fn = i.shared.main.Func(name[k+1:])
	}
	if fn == nil {
		i.ex.unsupported("callSSAReal: %s not found", name)
	}
	i.bypassExt(fn.String())
	defer i.unbypassExt(fn.String())
	return callSSA(i, fr.caller, fr.callpos, fn, args, nil)
}

func (i *interpreter) bypassExt(name string) {
	if i.bypass == nil {
		i.bypass = map[string]int{}
	}
	i.bypass[name]++
}

func (i *interpreter) unbypassExt(name string) { i.bypass[name]-- }

func (i *interpreter) lookupMethodByName(t types.Type, name string) *ssa.Function {
	if _, ok := t.Underlying().(*types.Interface); ok {
		return nil
	}
	sel := i.prog.MethodSets.MethodSet(t).Lookup(nil, name)
	if sel == nil {
		return nil
	}
	return i.prog.MethodValue(sel)
}

type prngState struct {
	seed *Term
	n    int
}

// seedKey names a symbolic seed by its structure (variables by name), so that the same
// seed expression gets the same PRNG words in every path and in the native replay vector.
func seedKey(e *Exec, t *Term) string {
	if t.size > 12 {
		return fmt.Sprintf("t%d", t.id)
	}
	switch t.op {
	case "var":
		return t.name
	case "const":
		return fmt.Sprintf("%d", t.val)
	}
	var sb strings.Builder
	sb.WriteString(strings.TrimPrefix(t.op, "bv"))
	sb.WriteByte('(')
	for k, a := range t.args {
		if k > 0 {
			sb.WriteByte(',')
		}
		sb.WriteString(seedKey(e, a))
	}
	sb.WriteByte(')')
	return sb.String()
}

// callMethodReal runs the real body of a method of the package under test.
func callMethodReal(fr *frame, typ, method string, args []value) value {
	i := fr.i
	t := i.shared.main.Type(typ)
	if t == nil {
		i.ex.unsupported("type %s not found", typ)
	}
	fn := i.prog.LookupMethod(types.NewPointer(t.Type()), i.shared.main.Pkg, method)
	if fn == nil {
		i.ex.unsupported("method %s.%s not found", typ, method)
	}
	i.bypassExt(fn.String())
	defer i.unbypassExt(fn.String())
	return callSSA(i, fr.caller, fr.callpos, fn, args, nil)
}

func symKeyOf(s sym) string { return fmt.Sprintf("‹sym:%s:t%d›", kindName(s.k), s.t.id) }

// parseSymKey inverts the fmt model: "0x‹sym:uint64:t12›" or "‹sym:uint64:t12›" denotes term t12.
func (i *interpreter) parseSymKey(s string) *Term {
	s = strings.TrimPrefix(s, "0x")
	if !strings.HasPrefix(s, "‹sym:") || !strings.HasSuffix(s, "›") {
		return nil
	}
	k := strings.LastIndex(s, ":t")
	if k < 0 {
		return nil
	}
	var id int
	if _, err := fmt.Sscanf(s[k+2:], "%d›", &id); err != nil {
		return nil
	}
	if id >= 0 && id < len(i.ex.pool.all) {
		if t := i.ex.pool.all[id]; t.sort.k == sBV && t.sort.w == 64 {
			return t
		}
	}
	return nil
}

// nativeSym prints its key for every fmt verb.
type nativeSym string

func (n nativeSym) Format(f fmt.State, verb rune) { fmt.Fprint(f, string(n)) }
