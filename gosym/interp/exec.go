package interp

// Path executor: forking by re-execution. One Exec drives one path of one
// harness; symbolic branch points consult the decision prefix first and the
// solver afterwards, and emit the alternatives as new prefixes.

import (
	"fmt"
	"sort"
	"strings"
)

type EndKind int

const (
	EndOK          EndKind = iota // harness returned normally
	EndAssume                     // assume(false): path discarded
	EndInfeasible                 // path condition became unsatisfiable (after unknowns)
	EndPanic                      // a target panic escaped the harness
	EndBudget                     // step / decision budget exhausted (unwinding assertion failed)
	EndUnsupported                // the executor met something it cannot encode
	EndStopped                    // stopped after violation (stopOnViolation)
	EndCut                        // one iteration of a cut loop completed (inductive step)
)

func (k EndKind) String() string {
	return [...]string{"ok", "assume", "infeasible", "panic", "budget", "unsupported", "stopped", "cut"}[k]
}

// pathAbort is the Go panic value used to unwind the interpreter when a path
// ends early. Target code cannot recover it.
type pathAbort struct {
	kind EndKind
	msg  string
}

// goexit models runtime.Goexit: runs deferred calls, cannot be recovered.
type goexitPanic struct{}

type Decision struct {
	K    byte     // 'b' branch, 'c' concretize, 'm' multi-way
	V    uint64   // chosen alternative / value
	Excl []uint64 // 'c': values excluded before V was chosen
	Open bool     // 'c': value still to be determined (only as last prefix entry)
}

type NondetRec struct {
	Name string
	Kind string // u64 i64 int u8 bool ...
	term *Term
}

type Violation struct {
	Msg       string            `json:"msg"`
	Model     map[string]uint64 `json:"model"`
	Kinds     map[string]string `json:"kinds"`
	Decisions int               `json:"decisions"`
	Pos       string            `json:"pos,omitempty"`
	Confirmed bool              `json:"confirmed_in_interp"`
	Trace     []string          `json:"trace,omitempty"`
}

type Limits struct {
	MaxSteps     int
	MaxDecisions int
}

type PathResult struct {
	End         EndKind
	Msg         string
	Forks       [][]Decision
	Violations  []Violation
	Reached     []string
	Steps       int
	Decisions   int
	Obligations int // vassert evaluations
	Discharged  int // ... shown to hold on this path
	Unknowns    int
	Funcs       map[string]bool
	Observed    []string
	SampleModel map[string]uint64
}

type Exec struct {
	pool           *termPool
	solver         *Solver
	prefix         []Decision
	pos            int
	decisions      []Decision
	forks          [][]Decision
	pcSet          map[int]bool
	nondets        []NondetRec
	ndCount        map[string]int
	reached        map[string]bool
	res            *PathResult
	steps          int
	lim            Limits
	concrete       map[string]uint64 // non-nil: concrete mode
	observed       []string
	funcs          map[string]bool
	unknowns       int
	infeasibleSeen bool
	fpBitsN        int
	summaries      int
	refined        map[int]uint64 // term id -> value the path condition forces
}

func newExec(solver *Solver, prefix []Decision, lim Limits, concrete map[string]uint64) *Exec {
	e := &Exec{
		pool:     newTermPool(),
		solver:   solver,
		prefix:   prefix,
		pcSet:    map[int]bool{},
		ndCount:  map[string]int{},
		reached:  map[string]bool{},
		lim:      lim,
		concrete: concrete,
		funcs:    map[string]bool{},
		refined:  map[int]uint64{},
		res:      &PathResult{},
	}
	if solver != nil {
		solver.Reset()
	}
	return e
}

func (e *Exec) abort(kind EndKind, format string, args ...any) {
	panic(pathAbort{kind, fmt.Sprintf(format, args...)})
}

func (e *Exec) unsupported(format string, args ...any) {
	e.abort(EndUnsupported, format, args...)
}

func (e *Exec) step() {
	e.steps++
	if e.steps > e.lim.MaxSteps {
		e.abort(EndBudget, "step budget %d exhausted", e.lim.MaxSteps)
	}
}

// assume adds c to the path condition.
func (e *Exec) addPC(c *Term) {
	if c.isConst() {
		if c.val == 0 {
			e.abort(EndInfeasible, "constant false assumed")
		}
		return
	}
	if e.pcSet[c.id] {
		return
	}
	e.pcSet[c.id] = true
	if c.op == "=" && len(c.args) == 2 {
		if c.args[1].isConst() && !c.args[0].isConst() {
			e.refined[c.args[0].id] = c.args[1].val
		} else if c.args[0].isConst() && !c.args[1].isConst() {
			e.refined[c.args[1].id] = c.args[0].val
		}
	}
	if c.op == "not" && c.args[0].op == "=" {
		// a one-bit quantity that is not v is the other value
		eq := c.args[0]
		for k := 0; k < 2; k++ {
			t, v := eq.args[k], eq.args[1-k]
			if v.isConst() && !t.isConst() && t.sort.k == sBV && upperBound(t) == 1 {
				e.refined[t.id] = 1 - v.val
			}
		}
	}
	// record conjuncts too, for the syntactic cache
	if c.op == "and" {
		for _, a := range c.args {
			e.pcSet[a.id] = true
		}
	}
	e.solver.Assert(c)
}

func (e *Exec) known(c *Term) (bool, bool) {
	if c.isConst() {
		return c.val == 1, true
	}
	if e.pcSet[c.id] {
		return true, true
	}
	if n := e.pool.Not(c); e.pcSet[n.id] {
		return false, true
	}
	return false, false
}

func (e *Exec) record(d Decision) {
	e.decisions = append(e.decisions, d)
	if len(e.decisions) > e.lim.MaxDecisions {
		e.abort(EndBudget, "decision budget %d exhausted", e.lim.MaxDecisions)
	}
}

func (e *Exec) forkWith(d Decision) {
	f := make([]Decision, len(e.decisions)+1)
	copy(f, e.decisions)
	f[len(e.decisions)] = d
	e.forks = append(e.forks, f)
}

// Branch decides a symbolic condition.
func (e *Exec) Branch(c *Term) bool {
	if v, ok := e.known(c); ok {
		return v
	}
	if e.pos < len(e.prefix) {
		d := e.prefix[e.pos]
		e.pos++
		if d.K != 'b' {
			e.abort(EndUnsupported, "replay divergence: expected %c decision, got branch", d.K)
		}
		e.decisions = append(e.decisions, d)
		if d.V == 1 {
			e.addPC(c)
		} else {
			e.addPC(e.pool.Not(c))
		}
		return d.V == 1
	}
	nc := e.pool.Not(c)
	rt := e.solver.CheckWith(c)
	var rf SatResult
	if rt == Unsat {
		rf = Sat // PC is satisfiable by construction, so the other side must be
	} else {
		rf = e.solver.CheckWith(nc)
	}
	if rt == Unknown || rf == Unknown {
		e.unknowns++
	}
	ft, ff := rt != Unsat, rf != Unsat
	switch {
	case ft && ff:
		e.forkWith(Decision{K: 'b', V: 0})
		e.record(Decision{K: 'b', V: 1})
		e.addPC(c)
		return true
	case ft:
		e.record(Decision{K: 'b', V: 1})
		e.addPC(c)
		return true
	case ff:
		e.record(Decision{K: 'b', V: 0})
		e.addPC(nc)
		return false
	}
	e.abort(EndInfeasible, "both sides infeasible")
	return false
}

// Concretize picks a concrete value for t, forking over the alternatives.
func (e *Exec) Concretize(t *Term) uint64 {
	if t.isConst() {
		return t.val
	}
	var excl []uint64
	if e.pos < len(e.prefix) {
		d := e.prefix[e.pos]
		e.pos++
		if d.K != 'c' {
			e.abort(EndUnsupported, "replay divergence: expected %c decision, got concretize", d.K)
		}
		if !d.Open {
			e.decisions = append(e.decisions, d)
			e.addPC(e.pool.Eq(t, e.pool.BV(d.V, t.sort.w)))
			return d.V
		}
		excl = d.Excl
	}
	for _, x := range excl {
		e.addPC(e.pool.Not(e.pool.Eq(t, e.pool.BV(x, t.sort.w))))
	}
	e.solver.define(t)
	r := e.solver.Check()
	if r != Sat {
		if r == Unknown {
			e.unknowns++
			e.abort(EndUnsupported, "solver unknown while concretizing")
		}
		e.abort(EndInfeasible, "no further value")
	}
	v := e.solver.EvalBV(t)
	nex := append(append([]uint64(nil), excl...), v)
	// is there any other value at all?
	if len(nex) < 4096 {
		e.forkWith(Decision{K: 'c', Open: true, Excl: nex})
	} else {
		e.abort(EndBudget, "too many values to concretize")
	}
	e.record(Decision{K: 'c', V: v, Excl: excl})
	e.addPC(e.pool.Eq(t, e.pool.BV(v, t.sort.w)))
	return v
}

// Pick fixes t to one value allowed by the path condition WITHOUT exploring the alternatives.
// Sound only for existential witnesses (the harness needs some value, not every value).
func (e *Exec) Pick(t *Term) uint64 {
	if t.isConst() {
		return t.val
	}
	if e.pos < len(e.prefix) {
		d := e.prefix[e.pos]
		e.pos++
		if d.K != 'p' {
			e.abort(EndUnsupported, "replay divergence: expected %c decision, got pick", d.K)
		}
		e.decisions = append(e.decisions, d)
		e.addPC(e.pool.Eq(t, e.pool.BV(d.V, t.sort.w)))
		return d.V
	}
	e.solver.define(t)
	if r := e.solver.Check(); r != Sat {
		if r == Unknown {
			e.unknowns++
			e.abort(EndUnsupported, "solver unknown while picking a witness")
		}
		e.abort(EndInfeasible, "no witness")
	}
	v := e.solver.EvalBV(t)
	e.record(Decision{K: 'p', V: v})
	e.addPC(e.pool.Eq(t, e.pool.BV(v, t.sort.w)))
	return v
}

// Choose is an n-way choice without constraints (scheduler, case-splits).
func (e *Exec) Choose(n int) int {
	if n <= 1 {
		return 0
	}
	if e.concrete != nil {
		return 0
	}
	if e.pos < len(e.prefix) {
		d := e.prefix[e.pos]
		e.pos++
		if d.K != 'm' {
			e.abort(EndUnsupported, "replay divergence: expected %c decision, got choose", d.K)
		}
		e.decisions = append(e.decisions, d)
		return int(d.V)
	}
	for i := n - 1; i >= 1; i-- {
		e.forkWith(Decision{K: 'm', V: uint64(i)})
	}
	e.record(Decision{K: 'm', V: 0})
	return 0
}

func (e *Exec) nondetName(name string) string {
	n := e.ndCount[name]
	e.ndCount[name] = n + 1
	if n == 0 {
		return name
	}
	return fmt.Sprintf("%s#%d", name, n)
}

func (e *Exec) model() (map[string]uint64, map[string]string) {
	vars := make([]*Term, 0, len(e.nondets))
	kinds := map[string]string{}
	for _, n := range e.nondets {
		vars = append(vars, n.term)
		kinds[n.Name] = n.Kind
	}
	return e.solver.Model(vars), kinds
}

// Assert checks a harness assertion on the current path.
func (e *Exec) Assert(c *Term, msg string, pos string) {
	e.res.Obligations++
	if c.isConst() && c.val == 1 {
		e.res.Discharged++
		return
	}
	if e.concrete != nil {
		// concrete mode: a false assertion is a confirmed violation
		e.res.Violations = append(e.res.Violations, Violation{Msg: msg, Model: e.concrete, Pos: pos, Confirmed: true})
		return
	}
	nc := e.pool.Not(c)
	var r SatResult
	var m map[string]uint64
	kinds := map[string]string{}
	if c.isConst() {
		r = e.solver.Check()
		if r == Sat {
			m, kinds = e.model()
		}
	} else {
		e.solver.define(nc)
		e.solver.send("(push 1)")
		e.solver.send("(assert " + nc.ref() + ")")
		r = e.solver.Check()
		if r == Sat {
			m, kinds = e.model()
		}
		e.solver.send("(pop 1)")
	}
	switch r {
	case Unsat:
		e.res.Discharged++
	case Sat:
		e.res.Violations = append(e.res.Violations, Violation{Msg: msg, Model: m, Kinds: kinds, Decisions: len(e.decisions), Pos: pos})
	case Unknown:
		e.unknowns++
	}
	if c.isConst() {
		e.abort(EndStopped, "assertion failed on every input of this path: %s", msg)
	}
	// continue under the assumption that the assertion held
	if r == Sat || r == Unknown {
		if e.solver.CheckWith(c) == Unsat {
			e.abort(EndStopped, "assertion cannot hold on this path: %s", msg)
		}
	}
	e.addPC(c)
}

func (e *Exec) Assume(c *Term) {
	if c.isConst() {
		if c.val == 0 {
			e.abort(EndAssume, "assume(false)")
		}
		return
	}
	if v, ok := e.known(c); ok {
		if !v {
			e.abort(EndAssume, "assume contradicts path")
		}
		return
	}
	if e.pos >= len(e.prefix) {
		// only check feasibility in new territory
		if e.solver.CheckWith(c) == Unsat {
			e.abort(EndAssume, "assume infeasible")
		}
	}
	e.addPC(c)
}

func (e *Exec) finish(end EndKind, msg string) *PathResult {
	r := e.res
	r.End, r.Msg = end, msg
	r.Forks = e.forks
	r.Steps = e.steps
	r.Decisions = len(e.decisions)
	r.Unknowns = e.unknowns
	r.Funcs = e.funcs
	r.Observed = e.observed
	for k := range e.reached {
		r.Reached = append(r.Reached, k)
	}
	sort.Strings(r.Reached)
	if e.concrete == nil && end == EndOK && e.solver != nil && len(e.nondets) > 0 && len(e.nondets) <= 64 {
		if e.solver.Check() == Sat {
			r.SampleModel, _ = e.model()
		}
	}
	return r
}

func decisionsString(ds []Decision) string {
	var sb strings.Builder
	for _, d := range ds {
		switch d.K {
		case 'b':
			fmt.Fprintf(&sb, "%d", d.V)
		case 'm':
			fmt.Fprintf(&sb, "m%d.", d.V)
		case 'p':
			fmt.Fprintf(&sb, "p%d.", d.V)
		case 'c':
			if d.Open {
				sb.WriteString("c?.")
			} else {
				fmt.Fprintf(&sb, "c%d.", d.V)
			}
		}
	}
	return sb.String()
}
